#!/venv/bin/python
# -*- coding: utf-8 -*-
"""Entry point.  Re-executes itself under a pinned PYTHONHASHSEED with /repo first on
sys.path, so that one VERIF_SEED is one exactly repeatable execution."""
import os
import sys

HERE = os.path.dirname(os.path.abspath(__file__))
REPO = os.environ.get("VERIF_REPO", "/repo")


def _reexec():
    env = dict(os.environ)
    env["PYTHONHASHSEED"] = env.get("VERIF_HASHSEED", "0")
    env["VERIF_REEXEC"] = "1"
    env["PYTHONPATH"] = REPO + os.pathsep + HERE
    env["PYTHONDONTWRITEBYTECODE"] = "1"
    env.pop("PYNEQSYS_SOLVER", None)
    os.execve(sys.executable, [sys.executable, os.path.abspath(__file__)] + sys.argv[1:], env)


if __name__ == "__main__":
    if os.environ.get("VERIF_REEXEC") != "1":
        _reexec()
    sys.path[:0] = [p for p in (REPO, HERE) if p not in sys.path[:2]]
    from sim.driver import main

    sys.exit(main())
