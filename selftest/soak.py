#!/venv/bin/python
"""False-alarm soak: runs every claimed check on the tree at VERIF_REPO (default /repo) for a
range of VERIF_SEED values and reports any non-zero exit.
usage: selftest/soak.py [--tier quick|thorough] [--seeds a:b] [--props C02,C08] [--budget S]"""
import os, subprocess, sys, time
HERE = os.path.dirname(os.path.dirname(os.path.abspath(__file__)))
args = sys.argv[1:]
def opt(name, default):
    return args[args.index(name) + 1] if name in args else default
tier = opt("--tier", "quick")
a, b = map(int, opt("--seeds", "1:6").split(":"))
props = opt("--props", "C02,C08,C11,C15").split(",")
budget = opt("--budget", None)
bad = 0
for seed in range(a, b):
    for p in props:
        env = dict(os.environ, VERIF_SEED=str(seed))
        if budget:
            env["VERIF_BUDGET_S"] = budget
        t = time.time()
        r = subprocess.run([os.path.join(HERE, "check"), p, "--tier", tier, "--no-evidence"], env=env, stdout=subprocess.PIPE, stderr=subprocess.STDOUT)
        out = r.stdout.decode()
        last = [l for l in out.splitlines() if l.startswith(p + ":")]
        print("seed=%d %s exit=%d %.0fs %s" % (seed, p, r.returncode, time.time() - t, last[-1] if last else ""), flush=True)
        if r.returncode != 0:
            bad += 1
            print("\n".join(l[:400] for l in out.splitlines() if not l.startswith("KNOWN"))[-3000:], flush=True)
print("soak done: %d non-zero exits" % bad)
sys.exit(1 if bad else 0)
