# -*- coding: utf-8 -*-
"""Command-line driver: runs the seeded simulation batches of one property, reduces
results deterministically, minimises and replays violations, writes evidence.

Exit codes: 0 property held on everything explored (known findings are listed, not
alarmed); 1 at least one VIOLATION line printed; 2 HARNESS-ERROR (never a verdict).
"""
from __future__ import annotations

import argparse
import faulthandler
import importlib
import json
import multiprocessing
import os
import subprocess
import sys
import tempfile
import time
from concurrent.futures import ProcessPoolExecutor, as_completed
from concurrent.futures.process import BrokenProcessPool

from . import core

PROPS = {"C02": "sim.props.c02", "C08": "sim.props.c08", "C11": "sim.props.c11", "C15": "sim.props.c15"}


def load_mod(prop):
    if prop not in PROPS:
        raise core.HarnessError("unknown property %s" % prop)
    return importlib.import_module(PROPS[prop])


def assert_repo_chempy():
    import chempy

    path = os.path.realpath(chempy.__file__)
    want = os.path.realpath(core.REPO_DIR) + os.sep
    if not path.startswith(want):
        raise core.HarnessError("chempy imported from %s, expected under %s" % (path, want))


# ----------------------------------------------------------------------------- workers

_MOD = None


def _worker_init(prop):
    global _MOD
    faulthandler.enable()
    _MOD = load_mod(prop)
    if hasattr(_MOD, "worker_init"):
        _MOD.worker_init()


def _finish(res):
    res = dict(res)
    res["digest"] = core.digest(res.get("history", []))
    res["outcome_digest"] = core.digest(res.get("outcome", res.get("history", [])))
    return res


def _work(args):
    seed, run, tier, keep = args
    try:
        case = _MOD.gen_case(seed, run, tier)
        res = _finish(core.run_case_guarded(_MOD.execute, case, timeout_s=_MOD.RUN_TIMEOUT_S, hang_violation=getattr(_MOD, 'TIMEOUT_IS_VIOLATION', False)))
    except Exception:
        return {"run": run, "harness_error": core.fmt_exc()}
    out = {
        "run": run,
        "digest": res["digest"],
        "outcome_digest": res["outcome_digest"],
        "n_ops": len(res.get("history", ())),
        "stats": res.get("stats", {}),
        "states": res.get("states", []),
        "violations": res.get("violations", []),
        "timeout": bool(res.get("timeout")),
        "volatile": bool(res.get("volatile")),
    }
    if keep:
        out["history"] = res.get("history", [])[:30]
        out["case"] = case
    return out


def run_batch(prop, seed, runs, tier, workers, keep_first=3):
    """Execute the given run indices in a fork pool; return results sorted by run."""
    ctx = multiprocessing.get_context("fork")
    out = {}
    with ProcessPoolExecutor(max_workers=workers, mp_context=ctx, initializer=_worker_init, initargs=(prop,)) as ex:
        futs = {ex.submit(_work, (seed, r, tier, i < keep_first)): r for i, r in enumerate(runs)}
        try:
            for fut in as_completed(futs, timeout=load_mod(prop).RUN_TIMEOUT_S * max(2, len(runs) // max(1, workers)) + 600):
                r = futs[fut]
                out[r] = fut.result()
        except BrokenProcessPool:
            raise core.HarnessError("worker process died")
        except TimeoutError:
            raise core.HarnessError("batch timed out")
    return [out[r] for r in sorted(out)]


# ----------------------------------------------------------------------------- child interpreters


def child_exec(prop, case, hashseed="0", timeout=600, extra_env=None):
    """Execute one explicit case in a fresh interpreter; returns the result dict."""
    d = tempfile.mkdtemp(prefix="child-", dir=core.scratch_base())
    try:
        cf = os.path.join(d, "case.json")
        with open(cf, "w") as f:
            json.dump(case, f, default=core.jdefault)
        env = dict(os.environ)
        env["PYTHONHASHSEED"] = str(hashseed)
        env["VERIF_REEXEC"] = "1"
        env["PYTHONPATH"] = core.REPO_DIR + os.pathsep + core.VERIF_DIR
        env.update(extra_env or {})
        p = subprocess.run(
            [sys.executable, os.path.join(core.VERIF_DIR, "sim_main.py"), prop, "--exec-case", cf],
            env=env, stdout=subprocess.PIPE, stderr=subprocess.PIPE, timeout=timeout,
        )
        if p.returncode != 0:
            raise core.HarnessError("child interpreter failed (%d): %s" % (p.returncode, p.stderr.decode()[-2000:]))
        line = p.stdout.decode().strip().splitlines()[-1]
        return json.loads(line)
    finally:
        import shutil

        shutil.rmtree(d, ignore_errors=True)


def child_gen_exec(prop, seed, runs, tier, hashseed):
    """Generate+execute the listed runs in ONE fresh interpreter under another hash seed;
    returns {run: (digest, outcome_digest)}."""
    env = dict(os.environ)
    env["PYTHONHASHSEED"] = str(hashseed)
    env["VERIF_REEXEC"] = "1"
    env["PYTHONPATH"] = core.REPO_DIR + os.pathsep + core.VERIF_DIR
    p = subprocess.run(
        [sys.executable, os.path.join(core.VERIF_DIR, "sim_main.py"), prop, "--digest-runs",
         ",".join(map(str, runs)), "--tier", tier, "--seed", str(seed)],
        env=env, stdout=subprocess.PIPE, stderr=subprocess.PIPE, timeout=3600,
    )
    if p.returncode != 0:
        raise core.HarnessError("digest child failed (%d): %s" % (p.returncode, p.stderr.decode()[-2000:]))
    return {int(k): tuple(v) for k, v in json.loads(p.stdout.decode().strip().splitlines()[-1]).items()}


# ----------------------------------------------------------------------------- violations


def same_violation(res, viol, prop, known):
    want_known = core.match_known(prop, viol, known) is not None
    for v in res.get("violations", ()):
        if v["class"] == viol["class"] and (core.match_known(prop, v, known) is not None) == want_known:
            return v
    return None


def minimise(mod, prop, case, viol, known, budget_s=120):
    t_end = time.time() + budget_s

    def still_fails(c):
        if time.time() > t_end:
            return False
        try:
            res = core.run_case_guarded(mod.execute, c, timeout_s=mod.RUN_TIMEOUT_S, hang_violation=getattr(mod, 'TIMEOUT_IS_VIOLATION', False))
        except Exception:
            return False
        return same_violation(res, viol, prop, known) is not None

    if not still_fails(case):
        return case, False
    try:
        small = mod.shrink(case, still_fails)
    except Exception:
        small = case
    if not still_fails(small):
        small = case
    return small, True


def report_violations(mod, prop, agg_viol, gen_case, known, max_reports=6):
    """Group, minimise, replay-verify and print.  Returns (n_new, n_known, lines)."""
    groups = {}
    for ref, v in agg_viol:
        key = (v["class"], core.canon(v["sig"]))
        groups.setdefault(key, []).append((ref, v))
    n_new = n_known = 0
    lines = []
    unconfirmed = 0
    printed_known = set()
    for key in sorted(groups):
        ref, v = groups[key][0]
        ent = core.match_known(prop, v, known)
        if ent is not None:
            n_known += 1
            kid = ent.get("id", key[0])
            if kid not in printed_known:
                printed_known.add(kid)
                lines.append("KNOWN-FINDING: property=%s %s [%s] (%d occurrence(s) this run)" % (
                    prop, ent.get("what", v["class"]), kid, len(groups[key])))
            continue
        if n_new >= max_reports:
            n_new += 1
            continue
        case = v.get("case") or gen_case(ref)
        small, reproduced = minimise(mod, prop, case, v, known)
        if not reproduced and v.get("case") is not None and isinstance(ref, int) and ref >= 0:
            # the single-operation extract does not fail on its own: the violation needs the history before it.
            # Fall back to the whole generated run.
            case = gen_case(ref)
            small, reproduced = minimise(mod, prop, case, v, known)
        res = v2 = None
        if reproduced:
            res = _finish(core.run_case_guarded(mod.execute, small, timeout_s=mod.RUN_TIMEOUT_S, hang_violation=getattr(mod, 'TIMEOUT_IS_VIOLATION', False)))
            v2 = same_violation(res, v, prop, known)
        if v2 is None:
            # This process has executed other cases: if the code under test keeps state between calls, only a
            # fresh interpreter is a faithful judge.  Two fresh interpreters must agree with each other.
            try:
                c1, c2 = child_exec(prop, case), child_exec(prop, case)
            except core.HarnessError:
                c1 = c2 = None
            if c1 and c2 and c1["digest"] == c2["digest"] and same_violation(c1, v, prop, known) is not None:
                small, res, v2 = case, c1, same_violation(c1, v, prop, known)
                lines.append("note: class=%s reproduces only in a fresh interpreter (state kept between calls in this process?); replay is not minimised" % v["class"])
            else:
                unconfirmed += 1
                lines.append("HARNESS-ERROR: violation class=%s at %s did not reproduce (in-process or in fresh interpreters)" % (v["class"], ref))
                continue
        tag = "%s-%s" % (v["class"].replace("/", "_"), core.digest(small)[:8])
        path = core.write_replay(prop, small, v2, res["digest"], tag)
        # replay in a fresh interpreter must fail the same way with the same history
        try:
            cres = child_exec(prop, small)
            ok = same_violation(cres, v, prop, known) is not None and cres["digest"] == res["digest"]
            if not ok and same_violation(cres, v, prop, known) is not None:
                # the fresh interpreter fails the same way but its history differs from this (long-lived) process:
                # the code under test keeps state between calls.  Two fresh interpreters must then agree exactly.
                cres2 = child_exec(prop, small)
                if cres2["digest"] == cres["digest"] and same_violation(cres2, v, prop, known) is not None:
                    ok = True
                    path = core.write_replay(prop, small, same_violation(cres, v, prop, known), cres["digest"], tag)
                    lines.append("note: history of class=%s differs between this process and a fresh interpreter (state kept between calls); replay digest taken from fresh interpreters" % v["class"])
            if not ok and same_violation(cres, v, prop, known) is None:
                # the minimised case fails here but not in a fresh interpreter: this long-lived process carries state
                # left by the code under test, so the minimiser dropped steps that a fresh interpreter needs.
                # Re-minimise with fresh interpreters as the judge (bounded), starting from the unminimised case.
                c1 = child_exec(prop, case)
                if same_violation(c1, v, prop, known) is not None:
                    budget = [40]

                    def fails_fresh(c):
                        if budget[0] <= 0:
                            return False
                        budget[0] -= 1
                        try:
                            return same_violation(child_exec(prop, c), v, prop, known) is not None
                        except core.HarnessError:
                            return False

                    try:
                        small2 = mod.shrink(case, fails_fresh)
                    except Exception:
                        small2 = case
                    ca, cb = child_exec(prop, small2), child_exec(prop, small2)
                    if same_violation(ca, v, prop, known) is None or ca["digest"] != cb["digest"]:
                        small2 = case
                        ca, cb = c1, child_exec(prop, case)
                    if same_violation(ca, v, prop, known) is not None and ca["digest"] == cb["digest"]:
                        ok = True
                        small = small2
                        tag = "%s-%s" % (v["class"].replace("/", "_"), core.digest(small)[:8])
                        path = core.write_replay(prop, small, same_violation(ca, v, prop, known), ca["digest"], tag)
                        lines.append("note: class=%s needs a fresh interpreter to reproduce (state kept between calls in this process); minimised against fresh interpreters" % v["class"])
        except core.HarnessError as e:
            ok = False
            lines.append("HARNESS-ERROR: replay child failed: %s" % e)
        if not ok:
            unconfirmed += 1
            lines.append("HARNESS-ERROR: replay of %s did not reproduce identically" % path)
            continue
        n_new += 1
        lines.append("VIOLATION property=%s replay=%s" % (prop, path))
        lines.append("  class=%s sig=%s" % (v2["class"], core.canon(v2["sig"])))
        lines.append("  detail=%s" % (str(v2["detail"])[:400],))
    return n_new, n_known, unconfirmed, lines


# ----------------------------------------------------------------------------- main


def cmd_exec_case(mod, path):
    with open(path) as f:
        case = json.load(f)
    if hasattr(mod, "worker_init"):
        mod.worker_init()
    res = _finish(core.run_case_guarded(mod.execute, case, timeout_s=mod.RUN_TIMEOUT_S, hang_violation=getattr(mod, 'TIMEOUT_IS_VIOLATION', False)))
    res.pop("history", None)
    print(json.dumps(res, default=core.jdefault))
    return 0


def cmd_digest_runs(mod, seed, runs, tier):
    if hasattr(mod, "worker_init"):
        mod.worker_init()
    out = {}
    for r in runs:
        case = mod.gen_case(seed, r, tier)
        res = _finish(core.run_case_guarded(mod.execute, case, timeout_s=mod.RUN_TIMEOUT_S, hang_violation=getattr(mod, 'TIMEOUT_IS_VIOLATION', False)))
        out[r] = (res["digest"], res["outcome_digest"], bool(res.get("volatile")))
    print(json.dumps(out))
    return 0


def cmd_replay(mod, prop, path):
    doc = core.load_replay(path)
    known = core.load_known_findings()
    if hasattr(mod, "worker_init"):
        mod.worker_init()
    res = _finish(core.run_case_guarded(mod.execute, doc["case"], timeout_s=mod.RUN_TIMEOUT_S, hang_violation=getattr(mod, 'TIMEOUT_IS_VIOLATION', False)))
    print("replay %s: history_digest=%s (recorded %s)" % (path, res["digest"], doc.get("history_digest")))
    hit = [v for v in res["violations"] if v["class"] == doc["violation_class"]]
    for v in res["violations"]:
        print("  violation class=%s sig=%s detail=%s" % (v["class"], core.canon(v["sig"]), str(v["detail"])[:300]))
    if hit:
        if core.match_known(prop, hit[0], known) is not None:
            print("KNOWN-FINDING: property=%s %s" % (prop, hit[0]["class"]))
            return 0
        print("VIOLATION property=%s replay=%s" % (prop, path))
        return 1
    print("replay did not reproduce class %s" % doc["violation_class"])
    return 0


def main(argv=None):
    ap = argparse.ArgumentParser()
    ap.add_argument("prop")
    ap.add_argument("--tier", default=os.environ.get("VERIF_TIER", "quick"), choices=["quick", "thorough"])
    ap.add_argument("--replay")
    ap.add_argument("--exec-case")
    ap.add_argument("--digest-runs")
    ap.add_argument("--seed", type=int, default=None)
    ap.add_argument("--runs", type=int, default=None)
    ap.add_argument("--workers", type=int, default=None)
    ap.add_argument("--no-evidence", action="store_true")
    ap.add_argument("--no-cross", action="store_true")
    args = ap.parse_args(argv)
    prop = args.prop.upper()
    t0 = time.time()
    try:
        assert_repo_chempy()
        mod = load_mod(prop)
        seed = args.seed if args.seed is not None else int(os.environ.get("VERIF_SEED", "0") or 0)
        if args.exec_case:
            return cmd_exec_case(mod, args.exec_case)
        if args.digest_runs:
            return cmd_digest_runs(mod, seed, [int(x) for x in args.digest_runs.split(",") if x], args.tier)
        if args.replay:
            return cmd_replay(mod, prop, args.replay)
        return run_check(mod, prop, seed, args, t0)
    except core.HarnessError as e:
        print("HARNESS-ERROR: %s" % e)
        return core.EXIT_HARNESS
    except Exception:
        print("HARNESS-ERROR: %s" % core.fmt_exc())
        return core.EXIT_HARNESS


def run_check(mod, prop, seed, args, t0):
    tier = args.tier
    core.scratch_base()
    if hasattr(mod, "worker_init"):
        mod.worker_init()  # the main process minimises and re-executes cases itself
    workers = args.workers or int(os.environ.get("VERIF_WORKERS", "0") or 0) or min(16, os.cpu_count() or 1)
    known = core.load_known_findings()
    print("check %s tier=%s VERIF_SEED=%d workers=%d hashseed=%s" % (
        prop, tier, seed, workers, os.environ.get("PYTHONHASHSEED")))
    agg = core.Agg()
    harness_errors = []
    all_runs = []

    def consume(results):
        for r in results:
            if "harness_error" in r:
                harness_errors.append((r["run"], r["harness_error"]))
                continue
            agg.add(r["run"], {"history": [None] * r["n_ops"], "stats": r["stats"], "states": r["states"],
                               "violations": r["violations"], "timeout": r["timeout"], "digest": r["digest"]},
                    keep_sample=False)
            if "history" in r and len(agg.samples) < 3:
                agg.samples.append({"run": r["run"], "case": r.get("case"), "history_first_30_events": r["history"]})
            if not r.get("volatile"):
                all_runs.append((r["run"], r["digest"], r["outcome_digest"]))

    if tier == "quick":
        n = args.runs or mod.QUICK_RUNS
        consume(run_batch(prop, seed, list(range(n)), tier, workers))
    else:
        budget = float(os.environ.get("VERIF_BUDGET_S", "") or mod.THOROUGH_BUDGET_S)
        batch = mod.THOROUGH_BATCH
        nxt = 0
        while True:
            consume(run_batch(prop, seed, list(range(nxt, nxt + batch)), tier, workers, keep_first=3 if nxt == 0 else 0))
            nxt += batch
            if args.runs and nxt >= args.runs:
                break
            if time.time() - t0 > budget:
                break
            if sum(1 for _r, v in agg.violations if core.match_known(prop, v, known) is None) > 200:
                break  # enough unknown violations to report; known findings do not stop the search
    t_main = time.time() - t0

    # ---- determinism / hash-seed cross-checks on a sample of runs (fresh interpreters)
    det_pairs = 0
    hs_pairs = 0
    cross_lines = []
    if not args.no_cross and all_runs:
        k = mod.CROSS_RUNS_QUICK if tier == "quick" else mod.CROSS_RUNS_THOROUGH
        step = max(1, len(all_runs) // k)
        sample = [all_runs[i] for i in range(0, len(all_runs), step)][:k]
        runs = [r for r, _, _ in sample]
        ctx = multiprocessing.get_context("fork")
        jobs = [("0", runs[i::4]) for i in range(4)] + [("1", runs[0::2]), ("1", runs[1::2]), ("4242", runs[0::2]), ("4242", runs[1::2])]
        jobs = [j for j in jobs if j[1]]
        from concurrent.futures import ThreadPoolExecutor

        with ThreadPoolExecutor(max_workers=len(jobs)) as tp:
            futs = [(hs, tp.submit(child_gen_exec, prop, seed, rs, tier, hs)) for hs, rs in jobs]
            ref = {r: (d, o) for r, d, o in sample}
            for hs, fut in futs:
                got = fut.result()
                for r, tup in got.items():
                    d, o = tup[0], tup[1]
                    if len(tup) > 2 and tup[2]:
                        continue  # the child met a slow solver instance: timing-dependent, not compared
                    if hs == "0":
                        det_pairs += 1
                        if d != ref[r][0]:
                            cross_lines.append("HARNESS-ERROR: run %d not deterministic across interpreters (%s vs %s)" % (r, d, ref[r][0]))
                    else:
                        hs_pairs += 1
                        if o != ref[r][1]:
                            # outcome depends on PYTHONHASHSEED: that is a property-level finding
                            agg.violations.append((r, core.violation(
                                "hashseed_dependence", "outcome digest differs under PYTHONHASHSEED=%s" % hs,
                                {"hashseed": hs})))

    # ---- aggregate-level clauses (e.g. C08 liveness): replayable cases derived from the pooled statistics
    if hasattr(mod, "post_cases"):
        for pc in mod.post_cases(dict(agg.stats), seed, tier, agg.runs):
            res = _finish(core.run_case_guarded(mod.execute, pc, timeout_s=mod.RUN_TIMEOUT_S))
            for v in res.get("violations", ()):
                v = dict(v)
                v.setdefault("case", pc)
                agg.violations.append((-1, v))

    # ---- violations
    n_new, n_known, unconfirmed, lines = report_violations(
        mod, prop, agg.violations, lambda ref: mod.gen_case(seed, ref, tier), known)
    for ln in cross_lines + lines:
        print(ln)
    for run, tb in harness_errors[:3]:
        print("HARNESS-ERROR: run %d raised in harness:\n%s" % (run, tb))

    wall = time.time() - t0
    desc = mod.describe()
    nontrivial = sorted((s for s in agg.states if not mod.is_trivial_state(s)), key=repr)
    cov = {
        "evaluations": int(agg.ops),
        "distinct_nontrivial": len(nontrivial),
        "rule": desc["rule"],
        "samples": agg.samples[:4] or [{"note": "no sample kept"}],
        "runs": agg.runs,
        "runs_per_hour": int(agg.runs / max(t_main, 1e-9) * 3600),
        "seeds": [seed],
        "run_indices": [0, agg.runs],
        "distinct_states_total": len(agg.states),
        "stats": dict(sorted(agg.stats.items())),
        "faults_fired": {k[len("fault_fired:"):]: v for k, v in sorted(agg.stats.items()) if k.startswith("fault_fired:")},
        "faults_configured": {k[len("fault_cfg:"):]: v for k, v in sorted(agg.stats.items()) if k.startswith("fault_cfg:")},
        "rare_branch_probes": {k[len("probe:"):]: v for k, v in sorted(agg.stats.items()) if k.startswith("probe:")},
        "run_timeouts": agg.timeouts,
        "simulated_time": "n/a - the code under test has no timers, sleeps or clock reads",
        "interleavings": "n/a - single task; the explored dimension is operation/fault sequences (distinct_states_total)",
        "real_components": desc["real_components"],
        "stubbed_components": desc["stubbed_components"],
        "determinism_pairs_checked": det_pairs,
        "hashseed_pairs_checked": hs_pairs,
        "known_findings_seen": n_known,
        "workers": workers,
    }
    cov.update(desc.get("extra", {}))
    ev = {
        "property_id": prop,
        "tier": tier,
        "seed": seed,
        "level": mod.LEVEL,
        "coverage": cov,
        "assumptions": desc["assumptions"],
        "wall_s": round(wall, 2),
        "violations": n_new,
    }
    if not args.no_evidence:
        core.write_evidence(prop, ev)
    print("%s: runs=%d ops=%d distinct_nontrivial=%d violations=%d known=%d timeouts=%d wall=%.1fs" % (
        prop, agg.runs, agg.ops, len(nontrivial), n_new, n_known, agg.timeouts, wall))
    if n_new:
        return core.EXIT_VIOLATION  # at least one violation was minimised and replayed identically in a fresh interpreter
    if harness_errors or unconfirmed or cross_lines:
        return core.EXIT_HARNESS
    if agg.timeouts:
        print("HARNESS-ERROR: %d run(s) hit the wall cap" % agg.timeouts)
        return core.EXIT_HARNESS
    return core.EXIT_VIOLATION if n_new else core.EXIT_OK
