# -*- coding: utf-8 -*-
"""C08 - reported equilibrium compositions are genuine whenever the solver claims success.

Seeded equilibrium systems (pool with explicit, independent compositions) are solved through
chempy's public entry points while the simulator (SimSolver, sim/seams/neqsolver.py) sits
under every delegated solver invocation and enumerates invocation faults.  Oracle: the
defining equations, evaluated by own arithmetic (sim/models/equilibrium.py).
See DESIGN.md section 3.2.
"""
from __future__ import annotations

import copy
import math
import warnings
from collections import OrderedDict

from .. import core
from ..models import equilibrium as EQ
from ..seams import neqsolver as NSV

PROPERTY = "C08"
LEVEL = "fault_enumeration"
QUICK_RUNS = 240
THOROUGH_BUDGET_S = 1500
THOROUGH_BATCH = 480
CROSS_RUNS_QUICK = 16
CROSS_RUNS_THOROUGH = 48
RUN_TIMEOUT_S = 900
PANEL_PER_RUN = 3
PANEL_SEED = 20260927  # the liveness panel does not depend on VERIF_SEED

CHAINS = {"log": ("NumSysLog",), "lin": ("NumSysLin",), "loglin": ("NumSysLog", "NumSysLin"), "square": ("NumSysSquare",),
          "linrel": ("NumSysLinRel",)}


def worker_init():
    NSV.install()


# ----------------------------------------------------------------------------- generation


def _logu(r, lo, hi):
    return 10 ** r.uniform(lo, hi)


def gen_system(r, live):
    """Returns (spec, init).  live=True: the well-conditioned liveness sub-domain."""
    if not live and r.random() < 0.3:
        salt = r.choice(EQ.SALTS)
        reac, prod, lk = EQ.EQUILIBRIA[salt]
        lk = lk + r.uniform(-1, 1)
        names = list(reac) + list(prod)
        r.shuffle(names)
        K = 10 ** lk
        solid = [n for n in names if EQ.is_solid(n)][0]
        ions = [n for n in names if not EQ.is_solid(n)]
        nu = [prod[i] for i in ions]
        # ion product relative to Ksp: under-, exactly-, over-saturated
        regime = r.choice(["under", "exact", "over", "over", "under"])
        base = K ** (1.0 / sum(nu))
        f = {"under": r.uniform(0.05, 0.7), "exact": 1.0, "over": r.uniform(1.5, 30)}[regime]
        init = {}
        skew = r.uniform(0.5, 2.0)
        init[ions[0]] = base * f * skew
        init[ions[1]] = base * f / (skew ** (float(nu[0]) / nu[1]))
        init[solid] = r.choice([0.0, 0.0, _logu(r, -6, -1), _logu(r, -3, 0)])
        spec = {"kind": "precip:" + regime + (":solid" if init[solid] > 0 else ":nosolid"), "species": names,
                "eqs": [{"name": salt, "reac": dict(reac), "prod": dict(prod), "K": K}]}
        coupled = {"caf2": ["hf"], "agcl": ["ag1", "ag2"], "agi": ["ag1", "ag2"]}.get(salt)
        if coupled and r.random() < 0.6:
            # one solid coupled to a homogeneous equilibrium that binds or frees one of its ions
            for e in coupled[: r.randint(1, len(coupled))]:
                rr, pp, lk2 = EQ.EQUILIBRIA[e]
                spec["eqs"].append({"name": e, "reac": dict(rr), "prod": dict(pp), "K": 10 ** (lk2 + r.uniform(-1, 1))})
                for n in list(rr) + list(pp):
                    if n not in names:
                        names.append(n)
                        init[n] = _logu(r, -4, 0)
            if r.random() < 0.5:
                # "hidden" supersaturation: the free ion starts (almost) absent and is released by the coupled equilibrium
                shared = [n for n in ions if any(n in list(q["reac"]) + list(q["prod"]) for q in spec["eqs"][1:])]
                if shared:
                    init[shared[0]] = r.choice([0.0, _logu(r, -10, -7)])
                    other = [n for n in ions if n != shared[0]]
                    if other:
                        init[other[0]] = _logu(r, -2, 0)
            r.shuffle(names)
            spec["species"] = names
            spec["kind"] = "precip:coupled" + (":solid" if init[solid] > 0 else ":nosolid")
        return spec, init
    nchains = r.choice([1, 1, 2, 2, 3]) if live else r.choice([1, 1, 2, 2, 3, 4])
    chains = r.sample(EQ.CHAINS, nchains)
    eqn = []
    for ch in chains:
        eqn += ch[: r.randint(1, len(ch))]
    if live:
        eqn = eqn[:3]
    if r.random() < (0.3 if live else 0.5) and len(eqn) < 5:
        eqn.append("water")
    jit = 1.0 if live else 2.0
    eqs = []
    names = []
    for e in eqn:
        reac, prod, lk = EQ.EQUILIBRIA[e]
        eqs.append({"name": e, "reac": dict(reac), "prod": dict(prod), "K": 10 ** (lk + r.uniform(-jit, jit))})
        for n in list(reac) + list(prod):
            if n not in names:
                names.append(n)
    r.shuffle(names)
    init = {}
    for n in names:
        if n == "H2O":
            init[n] = 55.5
        elif live:
            init[n] = _logu(r, -5, -1)
        else:
            init[n] = 0.0 if r.random() < 0.12 else _logu(r, -7, -1)
    spec = {"kind": "homog:%d" % len(eqs), "species": names, "eqs": eqs}
    return spec, init


def gen_case(seed, run, tier):
    rw = core.stream(seed, "c08/workload", run)
    rs = core.stream(seed, "c08/swarm", run)
    rf = core.stream(seed, "c08/faults", run)
    spec, init = gen_system(rw, live=False)
    single = rs.random() < 0.2
    if single:
        for _ in range(50):
            if len(spec["eqs"]) == 1 and not spec["kind"].startswith("precip") and all(v > 0 for v in init.values()):
                break
            spec, init = gen_system(rw, live=rw.random() < 0.5)
        else:
            single = False
    precip = spec["kind"].startswith("precip")
    nops = rs.randint(1, 4) if tier == "quick" else rs.randint(2, 6)
    ops = []
    for _ in range(nops):
        roll = rs.random()
        chain = rs.choices(["log", "lin", "loglin", "square", "linrel"], [5, 3, 5, 1.5, 0.25])[0]
        op = {"op": "root", "chain": chain, "rref_equil": rs.random() < 0.25, "rref_preserv": rs.random() < 0.25,
              "x0": None, "werror": rs.random() < 0.15}
        if rs.random() < 0.2 and ops:
            op["x0"] = "prev"
        elif rs.random() < 0.3:
            hi = rw.choice([5.0, 5.0, 60.0])
            op["x0"] = [max(init[n] * rw.uniform(0.2, hi), 1e-12) if n != "H2O" else 55.5 for n in spec["species"]]
        if roll < 0.62:
            pass
        elif roll < 0.76:
            vk = rw.choice([n for n in spec["species"] if n != "H2O"])
            lo = math.log10(max(init[vk], 1e-7))
            op = {"op": "roots", "chain": rs.choice(["log", "log", "loglin", "loglin", "lin", "lin", "linrel"]), "varied": vk,
                  "values": [10 ** (lo + d) for d in sorted(rw.uniform(-1.5, 1.5) for _ in range(rw.randint(3, 5)))]}
        elif roll < 0.88:
            cands = [n for n in spec["species"] if n != "H2O"]
            vk = rw.choice(cands)
            lo = math.log10(max(init[vk], 1e-7))
            op = {"op": "solve", "varied": {vk: [10 ** (lo + d) for d in sorted(rw.uniform(-1, 1) for _ in range(rw.choice([1, 2, 3])))]}}
            if rw.random() < 0.35:
                op["again"] = rw.choice(["plain", "plain", 0.1, 10.0])
            if len(cands) >= 2 and rw.random() < 0.3:
                k1, k2 = rw.sample(cands, 2)
                # two varied substances, given in the OPPOSITE of substance order
                if spec["species"].index(k1) < spec["species"].index(k2):
                    k1, k2 = k2, k1
                op = {"op": "solve", "varied": OrderedDict([
                    (k1, [max(init[k1], 1e-7) * f for f in (0.5, 2.0)]), (k2, [max(init[k2], 1e-7) * f for f in (0.3, 3.0)])])}
        elif len(spec["eqs"]) == 1 and not precip:
            op = {"op": "brentq"}
        ops.append(op)
    if precip and not spec["kind"].startswith("precip:coupled"):
        # the user fixes the phase assumption (neqsys_type='static_conditions'); asserted only when the assumption is the
        # true one (own arithmetic: ion product after dissolving all solid vs Ksp)
        e0 = spec["eqs"][0]
        solid = [n for n in e0["reac"] if EQ.is_solid(n)][0]
        q_all = 1.0
        for n, nu in e0["prod"].items():
            q_all *= (init[n] + nu * init[solid]) ** nu
        if abs(q_all / e0["K"] - 1) > 1e-3 and rs.random() < 0.6:
            truth = q_all > e0["K"]
            ops.append({"op": "root", "chain": rs.choice(["log", "lin", "loglin"]), "rref_equil": False, "rref_preserv": False, "x0": None,
                        "werror": False, "static": truth, "pre_static": rs.random() < 0.6})
    if single and rw.random() < 0.4:
        e = rw.choice(EQ.OVERALL)
        rr, pp, lk = EQ.EQUILIBRIA[e]
        names = list(rr) + list(pp)
        rw.shuffle(names)
        spec = {"kind": "homog:1", "species": names, "eqs": [{"name": e, "reac": dict(rr), "prod": dict(pp), "K": 10 ** (lk + rw.uniform(-2, 2))}]}
        init = {n: _logu(rw, -6, -1) for n in names}
        ops = [o for o in ops if o["op"] != "roots" and o["op"] != "solve" and (not o.get("x0") or o.get("x0") == "prev")]
    if single and rw.random() < 0.25:
        # a composition written with whole numbers (python ints), moderate constant
        for n in spec["species"]:
            init[n] = rw.choice([0, 1, 1, 2, 3, 5]) if n != "H2O" else 55
        if not any(init[n] for n in spec["eqs"][0]["reac"]) and not any(init[n] for n in spec["eqs"][0]["prod"]):
            init[list(spec["eqs"][0]["reac"])[0]] = 2
        spec["eqs"][0]["K"] = 10 ** rw.uniform(-2, 2)
        ops = [o for o in ops if (not o.get("x0") or o.get("x0") == "prev") and o["op"] not in ("roots", "solve")]
        int_init = True
    else:
        int_init = False
    if single:
        ops.insert(0, {"op": "brentq", "int_init": int_init})
        if rs.random() < 0.5:
            ops[0]["gamma"] = rs.choice([0.5, 0.8, 1.25, 2.0])
            if rf.random() < 0.6:
                ops[0]["raise_at"] = rf.randint(1, 8)
            elif rs.random() < 0.7:
                ops[0]["gamma_slope"] = rs.choice([0.5, 2.0, 10.0])
        if rw.random() < 0.5:
            # a weak acid that has barely dissociated: small K, products dilute or absent
            e0 = spec["eqs"][0]
            for n in e0["prod"]:
                init[n] = rw.choice([0.0, _logu(rw, -9, -7)])
            for n in e0["reac"]:
                if n != "H2O":
                    init[n] = _logu(rw, -4, -1)
            e0["K"] = min(e0["K"], 10 ** rw.uniform(-12, -8))
    if rs.random() < 0.25 and len(ops) >= 2:
        # the user re-orders the substances of the live system between two calculations
        ops.insert(rs.randint(1, len(ops) - 1), {"op": "sort"})
        for o in ops:
            if o.get("x0") not in (None, "prev"):
                o["x0"] = None
    if rs.random() < (0.5 if precip else 0.15) and not single:
        # the user changes an equilibrium constant on the live objects (e.g. another temperature) and solves again with
        # the solver object prepared earlier
        ops.append({"op": "root", "chain": rs.choice(["log", "loglin", "lin"]), "rref_equil": False, "rref_preserv": False, "x0": None,
                    "werror": False, "rekey": rs.choice([0.01, 100.0]) if precip else rs.choice([0.1, 10.0, 0.01])})
    kinds = [k for k in NSV.FAULT_KINDS if rs.random() < 0.8] or ["fail_nan"]
    enum = {"kinds": kinds, "early": sorted(rf.sample(range(1, 21), 3 if tier == "quick" else 6)), "max_inv": 6 if tier == "quick" else 14,
            "pairs": 0 if tier == "quick" else 6, "fseed": rf.randrange(1 << 30)}
    panel = list(range(run * PANEL_PER_RUN, (run + 1) * PANEL_PER_RUN))
    return {"property": PROPERTY, "spec": spec, "init": init, "ops": ops, "enumerate": enum, "panel": panel}


# ----------------------------------------------------------------------------- building / calling


def build_eqsys(spec):
    from chempy import Equilibrium
    from chempy.chemistry import Species
    from chempy.equilibria import EqSystem

    subs = OrderedDict()
    for n in spec["species"]:
        subs[n] = Species(n, composition=dict(EQ.SPECIES[n]), phase_idx=1 if EQ.is_solid(n) else 0)
    rx = [Equilibrium(dict(e["reac"]), dict(e["prod"]), e["K"]) for e in spec["eqs"]]
    return EqSystem(rx, subs)


def _numsys(chain):
    from chempy import _eqsys

    return tuple(getattr(_eqsys, n) for n in CHAINS[chain])


class Ctx(object):
    """Per-case execution context (objects live across the operations of a history)."""

    def __init__(self, case):
        self.spec = copy.deepcopy(case["spec"])
        self.names = self.spec["species"]
        self.init = [float(case["init"][n]) for n in self.names]
        self.eqsys = build_eqsys(self.spec)
        self.neqsys_cache = {}
        self.returned = []  # (array object handed back to the caller, copy of its values, names at that time)
        self.prev_choice = {}
        self.rekeyed_ops = set()

    def neqsys(self, op):
        key = (op["chain"], bool(op.get("rref_equil")), bool(op.get("rref_preserv")))
        if key not in self.neqsys_cache:
            self.neqsys_cache[key] = self.eqsys.get_neqsys(
                "chained_conditional", NumSys=_numsys(op["chain"]), rref_equil=key[1], rref_preserv=key[2], precipitates=None)
        return self.neqsys_cache[key]


def _own_residual(info, nr, scale):
    """Largest residual of chempy's OWN last-stage formulation at the point it returned, as reported by
    the solver (first nr rows: equilibrium rows, dimensionless; then conservation rows, normalised by the
    largest solute concentration).  None when not available."""
    try:
        ii = info.get("intermediate_info") if hasattr(info, "get") else None
        last = ii[-1] if ii else info
        fun = last.get("fun") if hasattr(last, "get") else None
        if fun is None:
            return None
        vals = [abs(float(v)) for v in fun]
    except Exception:
        return None
    worst = 0.0
    for i, v in enumerate(vals):
        if v != v or v == float("inf"):
            return float("inf")
        worst = max(worst, v if i < nr else v / scale)
    return worst


def call_op(ctx, op, faults, reuse, eqsys=None):
    """Execute one operation under a fault plan.  Returns a record with the points it produced."""
    import numpy as np

    NSV.WORLD.reset({f["inv"]: f for f in faults})
    es = eqsys or ctx.eqsys
    rec = {"op": op["op"], "faults": [dict(f) for f in faults], "reuse": bool(reuse)}
    points = []  # (c0 list, x list, success, sane)
    own = []  # per point: largest own residual (see _own_residual)
    nr = len(ctx.spec["eqs"])
    scale = max([abs(c) for n, c in zip(ctx.names, ctx.init) if n != "H2O"] + [1e-300])
    with warnings.catch_warnings():
        warnings.simplefilter("error" if op.get("werror") else "ignore")
        np_err = np.seterr(all="ignore")
        try:
            if op["op"] == "root":
                kw = {}
                if op.get("x0") == "prev":
                    # the very array an earlier call of this history returned; chosen once per operation so that every
                    # repetition of the operation (faulted, recovery) starts from the same object
                    key = op.get("_oi", -1)
                    if key not in ctx.prev_choice:
                        prev = [a for a, _c, nm in ctx.returned if nm == ctx.names and np.all(np.isfinite(a)) and np.all(a >= 0)]
                        ctx.prev_choice[key] = prev[-1] if prev else None
                    if ctx.prev_choice[key] is not None:
                        kw["x0"] = ctx.prev_choice[key]
                        rec["x0_prev"] = True
                elif op.get("x0") is not None:
                    kw["x0"] = np.array(op["x0"], dtype=float)
                if op.get("static") is not None:
                    kw.update(NumSys=_numsys(op["chain"]), neqsys_type="static_conditions", precipitates=(bool(op["static"]),))
                elif reuse:
                    kw["neqsys"] = ctx.neqsys(op)
                else:
                    kw.update(NumSys=_numsys(op["chain"]), rref_equil=bool(op.get("rref_equil")), rref_preserv=bool(op.get("rref_preserv")))
                x, info, sane = es.root(dict(zip(ctx.names, ctx.init)), **kw)
                points.append((list(ctx.init), [float(v) for v in x], bool(info["success"]), bool(sane)))
                if isinstance(x, np.ndarray) and es is ctx.eqsys:
                    ctx.returned.append((x, x.copy(), list(ctx.names)))
                own.append(_own_residual(info, nr, scale))
            elif op["op"] == "roots":
                vidx = ctx.names.index(op["varied"])
                xs, infos, sanes = es.roots(dict(zip(ctx.names, ctx.init)), np.array(op["values"], dtype=float), op["varied"],
                                            NumSys=_numsys(op["chain"]))
                for val, x, nfo, sn in zip(op["values"], xs, infos, sanes):
                    c0 = list(ctx.init)
                    c0[vidx] = float(val)
                    # NOTE: chempy judges sanity of every point against the *unvaried* initial state;
                    # the oracle below uses the state that was actually solved for
                    points.append((c0, [float(v) for v in x], bool(nfo["success"]), bool(sn)))
                    own.append(_own_residual(nfo, nr, scale))
            elif op["op"] == "solve":
                infos = []
                real_solve = es._solve

                def recording_solve(*a, **k):  # observe the info dict EqCalcResult throws away
                    r = real_solve(*a, **k)
                    infos.append(r[1])
                    return r

                es._solve = recording_solve
                try:
                    res = es.solve(dict(zip(ctx.names, ctx.init)), varied=OrderedDict((k, list(v)) for k, v in op["varied"].items()))
                    if op.get("again"):
                        # the caller solves the SAME result object a second time (possibly after changing a constant):
                        # what it reports afterwards must describe the second pass
                        n_first = len(infos)
                        if op["again"] != "plain" and op.get("_oi") not in ctx.rekeyed_ops:
                            f = float(op["again"])
                            es.rxns[0].param = es.rxns[0].param * f
                            ctx.spec["eqs"][0]["K"] = ctx.spec["eqs"][0]["K"] * f
                            ctx.rekeyed_ops.add(op.get("_oi"))
                        res.solve()
                        infos = infos[n_first:] if len(infos) >= 2 * n_first else [None] * n_first
                finally:
                    del es.__dict__["_solve"]
                own.extend((_own_residual(nfo, nr, scale) if nfo is not None else None) for nfo in infos)
                # documented semantics: one axis per varied substance, axes in SUBSTANCE order
                import itertools

                vkeys = [k for k in ctx.names if k in op["varied"]]
                for index in itertools.product(*[range(len(op["varied"][k])) for k in vkeys]):
                    c0 = list(ctx.init)
                    for ax, k in enumerate(vkeys):
                        c0[ctx.names.index(k)] = float(op["varied"][k][index[ax]])
                    points.append((c0, [float(v) for v in res.conc[index]], bool(res.success[index]), bool(res.sane[index])))
            elif op["op"] == "brentq":
                from chempy._equilibrium import solve_equilibrium

                e = ctx.spec["eqs"][0]
                stoich = [e["prod"].get(n, 0) - e["reac"].get(n, 0) for n in ctx.names]
                akw = {}
                if op.get("gamma"):
                    calls = [0]

                    def activity_product(c, _g=float(op["gamma"]), _at=op.get("raise_at"), _a=float(op.get("gamma_slope", 0.0))):
                        calls[0] += 1
                        if _at is not None and calls[0] >= _at:  # from its k-th call on the model refuses
                            rec["callback_raised"] = True
                            raise ValueError("activity model outside its range of validity (injected)")
                        return _g / (1.0 + _a * float(np.sum(c)))  # depends on the composition it is asked about

                    akw["activity_product"] = activity_product
                c0arg = [int(v) for v in ctx.init] if op.get("int_init") and all(float(v).is_integer() for v in ctx.init) else list(ctx.init)
                x = solve_equilibrium(c0arg, stoich, e["K"], **akw)
                points.append((list(ctx.init), [float(v) for v in x], True, True))
            else:
                raise core.HarnessError("unknown op %r" % op["op"])
            rec["outcome"] = "returned"
        except core.HarnessError:
            raise
        except Exception as ex:
            rec["outcome"] = "raise:" + core.exc_tag(ex)
        finally:
            np.seterr(**np_err)
    rec["points"] = points
    rec["returned_changed"] = [i for i, (a, c, _n) in enumerate(ctx.returned) if not (np.array_equal(a, c, equal_nan=True))]
    for i in rec["returned_changed"]:
        a, c, n = ctx.returned[i]
        ctx.returned[i] = (a, a.copy(), n)  # report once
    rec["own"] = own + [None] * (len(points) - len(own))
    rec["n_inv"] = NSV.WORLD.n
    rec["inv_log"] = [dict(x) for x in NSV.WORLD.log]
    rec["fired"] = list(NSV.WORLD.fired)
    return rec


def _own_scalar_root(ctx, g, a):
    """Own solution of a single equilibrium with activity product g/(1 + a*sum(c)) by bisection on the reaction coordinate
    (f = ln Q + ln gamma - ln K is increasing in the coordinate for the mild slopes used).  None if not bracketed."""
    e = ctx.spec["eqs"][0]
    nu = [e["prod"].get(n, 0) - e["reac"].get(n, 0) for n in ctx.names]
    c0 = list(ctx.init)
    lo = max([-c / v for c, v in zip(c0, nu) if v > 0] + [-1e300])
    hi = min([c / -v for c, v in zip(c0, nu) if v < 0] + [1e300])
    if not (lo < hi) or lo < -1e299 or hi > 1e299:
        return None

    def f(xi):
        c = [ci + v * xi for ci, v in zip(c0, nu)]
        if any(ci <= 0 for ci, v in zip(c, nu) if v != 0):
            return None
        return sum(v * math.log(ci) for ci, v in zip(c, nu) if v != 0) + math.log(g / (1.0 + a * sum(c))) - math.log(e["K"])

    span = hi - lo
    l, h = lo + 1e-14 * span, hi - 1e-14 * span
    fl, fh = f(l), f(h)
    if fl is None or fh is None or fl > 0 or fh < 0:
        return None
    for _ in range(200):
        m = 0.5 * (l + h)
        fm = f(m)
        if fm is None:
            return None
        if fm > 0:
            h = m
        else:
            l = m
    xi = 0.5 * (l + h)
    return [ci + v * xi for ci, v in zip(c0, nu)]


def _close(a, b, rtol=1e-9):
    scale = max(max(abs(v) for v in a), max(abs(v) for v in b), 1e-300)
    return all(abs(p - q) <= rtol * max(abs(p), abs(q)) + 1e-14 * scale for p, q in zip(a, b))


# ----------------------------------------------------------------------------- oracle


def judge(ctx, op, rec, faults):
    out = []
    chain = op.get("chain", "default")
    kinds = sorted({f["kind"] for f in faults})
    first = CHAINS.get(chain, ("NumSysLog",))[0] if op["op"] != "solve" else "NumSysLog"
    family = "log" if first == "NumSysLog" else "linear"
    eq_species = {n for e in ctx.spec["eqs"] for n in list(e["reac"]) + list(e["prod"]) if not EQ.is_solid(n)}
    for pi, (c0, x, success, sane) in enumerate(rec["points"]):
        if op["op"] == "brentq":
            break  # the scalar solver makes no success/sane claim; it is compared with the chain (X1)
        if success and sane:
            bad = EQ.check_point(ctx.spec, c0, x)
            if bad:
                clause = bad[0][0]
                start = op.get("x0") if (op["op"] == "root" and op.get("x0") is not None and op.get("x0") != "prev") else (ctx.init if op["op"] == "roots" else c0)
                zero_start = any(v == 0 for n, v in zip(ctx.names, start) if n in eq_species)
                out.append(core.violation(
                    "unsound_success", "%s reported success and sane but %s: %s (x=%s, c0=%s)" % (op["op"], clause, bad[0][1], x, c0),
                    {"clause": clause, "op": op["op"], "chain": chain, "faults": kinds, "system": ctx.spec["kind"].split(":")[0],
                     "first_stage_family": family, "zero_start": zero_start,
                     "after_failed_stage": any(not r.get("success", True) for r in rec["inv_log"][:-1]),
                     "finite": clause != "nonfinite",
                     "own_residual_large": (rec["own"][pi] is not None and rec["own"][pi] > 1e-6),
                     "in_bounds": _in_bounds(ctx.names, c0, x)}))
    if rec.get("returned_changed"):
        out.append(core.violation("returned_result_mutated", "an array returned by an earlier call was changed in place by this %s call" % op["op"],
                                  {"op": op["op"], "chain": chain}))
    # S2: flag honesty.  root: the last invocation serves the point.  roots/solve on homogeneous systems: every point
    # is served by exactly S consecutive invocations (S = stages of the chain), the last of which decides its flag.
    npts = len(rec["points"])
    if op["op"] == "root" and npts and rec["inv_log"]:
        last = rec["inv_log"][-1]
        if last.get("fired") and last.get("fault") in NSV.FAILURE_KINDS + ("early_stop",) and rec["points"][0][2]:
            out.append(core.violation("flag_dishonest", "last solver invocation failed (%s) but success was reported" % last["fault"],
                                      {"op": "root", "chain": chain, "fault": last["fault"]}))
    elif op["op"] in ("roots", "solve") and npts and not ctx.spec["kind"].startswith("precip"):
        stages = 2 if op["op"] == "solve" else len(CHAINS.get(chain, ("x",)))
        passes = 2 if op.get("again") else 1
        if len(rec["inv_log"]) == passes * stages * npts and op.get("base_n_inv") == passes * stages * npts:
            for j, inv in enumerate(rec["inv_log"][(passes - 1) * stages * npts:]):
                if j % stages == stages - 1 and inv.get("fired") and inv.get("fault") in NSV.FAILURE_KINDS + ("early_stop",):
                    if rec["points"][j // stages][2]:
                        out.append(core.violation(
                            "flag_dishonest", "%s: the last solver invocation serving point %d failed (%s) but the point is reported as success" % (
                                op["op"], j // stages, inv["fault"]), {"op": op["op"], "chain": chain, "fault": inv["fault"]}))
                        break
    return out


def _in_bounds(names, c0, x):
    """Own computation of what 'sane' means: finite, non-negative, below the elemental upper bounds."""
    if any(v != v or abs(v) == float("inf") or v < 0 for v in x):
        return False
    totals = {}
    for n, c in zip(names, c0):
        for z, k in EQ.SPECIES[n].items():
            if z != 0:
                totals[z] = totals.get(z, 0.0) + k * c
    for n, v in zip(names, x):
        ub = min(totals[z] / k for z, k in EQ.SPECIES[n].items() if z != 0)
        if v > ub * (1 + 1e-8) + 1e-300:
            return False
    return True


def outcome_class(rec):
    if rec["outcome"] != "returned":
        return rec["outcome"]
    flags = sorted({("S" if s else "s") + ("A" if a else "a") for _, _, s, a in rec["points"]})
    return "returned:" + "".join(flags)


# ----------------------------------------------------------------------------- fault enumeration


def enumerate_faults(base_rec, enum):
    rng = core.stream(enum.get("fseed", 0), "c08/enum", 0)
    plans = []
    invs = [r["inv"] for r in base_rec["inv_log"]][: int(enum.get("max_inv", 6))]
    for i in invs:
        for k in enum["kinds"]:
            if k == "early_stop":
                for budget in enum.get("early", [1, 5, 12]):
                    plans.append([{"inv": i, "kind": k, "k": budget}])
            elif k == "fail_garbage":
                plans.append([{"inv": i, "kind": k, "s": 3.0}])
                plans.append([{"inv": i, "kind": k, "s": 1e3, "shift": True}])
            else:
                plans.append([{"inv": i, "kind": k}])
    singles = [p[0] for p in plans]
    for _ in range(int(enum.get("pairs", 0))):
        if len(singles) >= 2:
            a, b = rng.sample(singles, 2)
            b = dict(b)
            if b["inv"] == a["inv"]:
                b["inv"] = a["inv"] + 1
            plans.append([dict(a), b])
    return plans


# ----------------------------------------------------------------------------- execute


def _hist(op, rec):
    h = {"op": op["op"], "chain": op.get("chain"), "faults": rec["faults"], "reuse": rec["reuse"], "outcome": outcome_class(rec),
         "n_inv": rec["n_inv"], "fired": rec["fired"]}
    h["points"] = [[s, a, ["%.6e" % v for v in x]] for _, x, s, a in rec["points"]]
    return h


def panel_case(i):
    r = core.stream(PANEL_SEED, "c08/panel", i)
    return gen_system(r, live=True)


def run_panel(indices, stats, viols, hist):
    """Liveness clause: fault-free, default chains, well-conditioned homogeneous systems."""
    tot = ok_root = ok_solve = 0
    failed = []
    for i in indices:
        spec, init = panel_case(i)
        ctx = Ctx({"spec": spec, "init": init})
        r1 = call_op(ctx, {"op": "root", "chain": "log"}, [], False)  # EqSystem.root default: NumSysLog
        r2 = call_op(ctx, {"op": "solve", "varied": {ctx.names[0] if ctx.names[0] != "H2O" else ctx.names[1]: [init[ctx.names[0] if ctx.names[0] != "H2O" else ctx.names[1]]]}}, [], False)
        a = bool(r1["points"] and r1["points"][0][2] and r1["points"][0][3])
        b = bool(r2["points"] and r2["points"][0][2] and r2["points"][0][3])
        tot += 1
        ok_root += a
        ok_solve += b
        if not (a and b):
            failed.append(i)
        for op, rec in (({"op": "root", "chain": "log"}, r1), ({"op": "solve"}, r2)):
            for v in judge(ctx, op, rec, []):
                v["sig"]["panel"] = True
                v["case"] = {"property": PROPERTY, "panel_only": [i]}
                viols.append(v)
        hist.append({"op": "panel", "i": i, "root": outcome_class(r1), "solve": outcome_class(r2)})
    stats["live_n"] = stats.get("live_n", 0) + tot
    stats["live_ok_root"] = stats.get("live_ok_root", 0) + ok_root
    stats["live_ok_solve"] = stats.get("live_ok_solve", 0) + ok_solve
    return tot, ok_root, ok_solve, failed


def execute(case):
    hist, viols, stats, states = [], [], {}, set()

    def bump(k, n=1):
        stats[k] = stats.get(k, 0) + n

    if case.get("panel_only") is not None:
        idx = case["panel_only"]
        tot, ok_root, ok_solve, failed = run_panel(idx, stats, viols, hist)
        if tot >= 20 and (ok_root < 0.95 * tot or ok_solve < 0.95 * tot):
            viols.append(core.violation(
                "liveness_below_19_of_20", "default chain succeeded on root %d/%d, solve %d/%d well-conditioned panel cases (failed: %s)" % (
                    ok_root, tot, ok_solve, tot, failed[:20]), {"entry": "root" if ok_root < 0.95 * tot else "solve"}))
        return {"history": hist, "violations": _dedup(viols), "stats": stats, "states": []}

    ctx = Ctx(case)
    sysk = ctx.spec["kind"]

    def one(op, faults, reuse, label):
        rec = call_op(ctx, op, faults, reuse)
        vs = judge(ctx, op, rec, faults)
        for v in vs:
            explicit = {"property": PROPERTY, "spec": case["spec"], "init": case["init"], "enumerate": None, "panel": [],
                        "ops": [dict(op, faults=[dict(f) for f in faults], reuse=bool(reuse))]}
            v["case"] = explicit
            viols.append(v)
        hist.append(_hist(op, rec))
        bump("calls")
        bump("solver_invocations", rec["n_inv"])
        for f in faults:
            bump("fault_cfg:" + f["kind"])
        for k in rec["fired"]:
            bump("fault_fired:" + k)
        oc = outcome_class(rec)
        kinds = tuple(sorted(f["kind"] for f in faults)) or ("none",)
        pos = tuple(sorted({min(f["inv"], 4) for f in faults}))
        states.add((op["op"], op.get("chain", "default"), sysk, kinds, tuple(sorted(set(rec["fired"]))), pos, oc, label))
        for inv in rec["inv_log"]:
            if not inv.get("x0_finite", True):
                bump("probe:stage_started_from_nonfinite_x0")
        if faults and rec["fired"] and "SA" in oc:
            bump("probe:success_and_sane_despite_fired_fault")
        if any("Sa" in oc for _ in [0]):
            bump("probe:success_but_insane")
        if len(rec["inv_log"]) > len(CHAINS.get(op.get("chain", "loglin"), ("a", "b"))) and op["op"] == "root":
            bump("probe:precipitation_condition_switch")
        return rec

    for oi_, op in enumerate(case["ops"]):
        op = dict(op, _oi=op.get("_oi", oi_))
        faults0 = op.get("faults") or []
        if op["op"] == "sort":
            ctx.eqsys.sort_substances_inplace()
            order = sorted(range(len(ctx.names)), key=lambda i: ctx.names[i])
            ctx.names = [ctx.names[i] for i in order]
            ctx.init = [ctx.init[i] for i in order]
            ctx.spec["species"] = list(ctx.names)
            ctx.neqsys_cache.clear()  # prepared solver objects belong to the old order
            hist.append({"op": "sort", "outcome": "ok"})
            bump("sort_between_solves")
            continue
        if op.get("rekey"):
            one(op, [], True, "rekey0")
            f = float(op["rekey"])
            ctx.eqsys.rxns[0].param = ctx.eqsys.rxns[0].param * f
            ctx.spec["eqs"][0]["K"] = ctx.spec["eqs"][0]["K"] * f
            one(op, [], True, "rekey1")
            bump("rekey_sequences")
            continue
        if op.get("static") is not None:
            if op.get("pre_static"):
                # same EqSystem, opposite phase assumption first: its result is the user's business and is not judged
                rec0 = call_op(ctx, dict(op, static=not op["static"]), [], False)
                hist.append(dict(_hist(op, rec0), decoy=True))
                bump("static_decoy_calls")
            one(op, faults0, False, "static")
            continue
        if faults0 or case.get("enumerate") is None:
            one(op, faults0, bool(op.get("reuse")), "explicit")
            continue
        base = one(op, [], False, "fresh")
        enum = case["enumerate"]
        if op["op"] == "brentq":
            # X1: agreement with the default-chain root (for a constant activity product g: the root of K/g)
            if op.get("gamma") and op.get("gamma_slope"):
                # reference by own bisection on the reaction coordinate: ln Q(c) + ln g(c) = ln K
                xr_own = _own_scalar_root(ctx, float(op["gamma"]), float(op["gamma_slope"]))
                if xr_own is not None and base["points"]:
                    xb = base["points"][0][1]
                    e0 = ctx.spec["eqs"][0]
                    nus = [abs(e0["prod"].get(n, 0) - e0["reac"].get(n, 0)) for n in ctx.names]
                    if any(abs(p - q) > 1e-6 * abs(q) + 8e-12 * nu for p, q, nu in zip(xb, xr_own, nus)):
                        viols.append(core.violation("brentq_disagrees", "scalar solver with a composition-dependent activity product %s vs own bisection %s" % (xb, xr_own), {"op": "brentq", "activity": "composition_dependent"}))
                    bump("probe:brentq_compared_with_own_bisection")
                if base.get("callback_raised"):
                    bump("fault_fired:activity_callback_raise")
                continue
            if op.get("gamma"):
                gspec = copy.deepcopy(ctx.spec)
                gspec["eqs"][0]["K"] = gspec["eqs"][0]["K"] / float(op["gamma"])
                gctx = Ctx({"spec": gspec, "init": case["init"]})
                ref = call_op(gctx, {"op": "root", "chain": "loglin", "x0": None}, [], False)
                if base.get("callback_raised"):
                    bump("fault_fired:activity_callback_raise")
                if base.get("callback_raised") and base["outcome"] == "returned":
                    bump("probe:scalar_solver_returned_although_callback_raised")
            else:
                ref = one({"op": "root", "chain": "loglin", "x0": None}, [], False, "x1")
            if base["points"] and ref["points"]:
                _, xb, _, _ = base["points"][0]
                c0, xr, s, a = ref["points"][0]
                # brentq stops at an absolute tolerance of 2e-12 on the reaction coordinate, so a trace species
                # carries that absolute error: Q = K is not demanded of it beyond that, conservation and sign are
                badb = [b for b in EQ.check_point(ctx.spec, c0, xb, tol_lnq=float("inf"))]
                if op.get("gamma"):
                    if s and a and EQ.check_point(gspec, c0, xr):
                        s = False  # reference itself not genuine: nothing to compare with
                e0 = ctx.spec["eqs"][0]
                nus = [abs(e0["prod"].get(n, 0) - e0["reac"].get(n, 0)) for n in ctx.names]
                if badb:
                    viols.append(core.violation("brentq_wrong", "solve_equilibrium result violates %s: %s" % badb[0], {"op": "brentq"}))
                elif s and a and any(abs(p - q) > 1e-6 * abs(q) + 8e-12 * nu for p, q, nu in zip(xb, xr, nus)):
                    viols.append(core.violation("brentq_disagrees", "scalar solver %s vs chain %s" % (xb, xr), {"op": "brentq"}))
                bump("probe:brentq_compared")
            continue
        reuse = op["op"] == "root"
        first_reused = one(op, [], True, "reused0") if reuse else None
        if reuse and base["points"] and first_reused["points"]:
            if base["points"][0][2] and first_reused["points"][0][2] and not _close(base["points"][0][1], first_reused["points"][0][1]):
                viols.append(core.violation("sticky_state", "fresh solver objects and a prepared one disagree: %s vs %s" % (
                    base["points"][0][1], first_reused["points"][0][1]), {"op": op["op"], "stage": "fresh_vs_prepared"}))
        if base["n_inv"] > 0:
            fop = dict(op, base_n_inv=base["n_inv"])
            # NumSysLinRel costs ~250 ms per call (symbolic Min): faults at its first two invocations only
            for plan in enumerate_faults(base, dict(enum, max_inv=2) if op.get("chain") == "linrel" else enum):
                one(fop, plan, reuse, "faulted")
            # S3: recovery within one call once faults stop, on the very same objects
            after = one(op, [], reuse, "recovery")
            ref = first_reused if reuse else base
            if ref["outcome"] != after["outcome"] or len(ref["points"]) != len(after["points"]):
                viols.append(core.violation("sticky_state", "fault-free call after faults ended differently: %s vs %s" % (
                    outcome_class(ref), outcome_class(after)), {"op": op["op"], "stage": "recovery"}))
            else:
                for (c0, x1, s1, a1), (_, x2, s2, a2) in zip(ref["points"], after["points"]):
                    if (s1, a1) != (s2, a2) or (s1 and not _close(x1, x2)):
                        viols.append(core.violation("sticky_state", "fault-free call after faults gave %s, before %s" % (x2, x1),
                                                    {"op": op["op"], "stage": "recovery"}))
                        break
    if case.get("panel"):
        run_panel(case["panel"], stats, viols, hist)
    return {"history": hist, "violations": _dedup(viols), "stats": stats, "states": sorted(states, key=repr)}


def post_cases(stats, seed, tier, runs):
    """Aggregate-level clause (liveness): if the pooled panel rate is below 19/20, hand the driver
    one replayable case consisting of the whole panel that was run."""
    n = stats.get("live_n", 0)
    if n >= 20 and (stats.get("live_ok_root", 0) < 0.95 * n or stats.get("live_ok_solve", 0) < 0.95 * n):
        return [{"property": PROPERTY, "panel_only": list(range(0, runs * PANEL_PER_RUN))}]
    return []


def _dedup(viols):
    seen, out = set(), []
    for v in viols:
        k = (v["class"], core.canon(v["sig"]))
        if k not in seen:
            seen.add(k)
            out.append(v)
    return out


# ----------------------------------------------------------------------------- shrinking


def shrink(case, still_fails):
    if case.get("panel_only") is not None:
        return case
    cur = copy.deepcopy(case)
    cur["enumerate"] = None
    cur["panel"] = []
    if not still_fails(cur):
        return case
    if len(cur["ops"]) > 1:
        ops = core.ddmin_list(cur["ops"], lambda o: still_fails(dict(cur, ops=o)), budget=[30])
        if ops and still_fails(dict(cur, ops=ops)):
            cur["ops"] = ops
    for oi, op in enumerate(cur["ops"]):
        fs = op.get("faults") or []
        if len(fs) > 1:
            def test(f, oi=oi):
                t = copy.deepcopy(cur)
                t["ops"][oi]["faults"] = f
                return still_fails(t)

            f2 = core.ddmin_list(fs, test, budget=[20])
            t = copy.deepcopy(cur)
            t["ops"][oi]["faults"] = f2
            if still_fails(t):
                cur = t
        for fld, val in (("werror", False), ("x0", None), ("rref_equil", False), ("rref_preserv", False), ("reuse", False)):
            if op.get(fld) not in (val, None):
                t = copy.deepcopy(cur)
                t["ops"][oi][fld] = val
                if still_fails(t):
                    cur = t
    # drop equilibria (and species that become unused)
    eqs = cur["spec"]["eqs"]
    if len(eqs) > 1:
        for drop in range(len(eqs) - 1, -1, -1):
            t = copy.deepcopy(cur)
            del t["spec"]["eqs"][drop]
            used = {n for e in t["spec"]["eqs"] for n in list(e["reac"]) + list(e["prod"])}
            t["spec"]["species"] = [n for n in t["spec"]["species"] if n in used]
            t["init"] = {n: v for n, v in t["init"].items() if n in used}
            for o in t["ops"]:
                if o.get("x0") is not None:
                    o["x0"] = None
            try:
                if t["spec"]["eqs"] and still_fails(t):
                    cur = t
            except Exception:
                pass
    return cur


# ----------------------------------------------------------------------------- reporting


def is_trivial_state(s):
    op, chain, sysk, kinds, fired, pos, oc, label = s
    if kinds != ("none",) and not fired:
        return True
    return oc.startswith("raise:TypeError")


def describe():
    return {
        "rule": ("seeded equilibrium systems (1-5 equilibria from a pool of acid/base/complexation equilibria with constants jittered "
                 "+-2 decades and initial concentrations over six decades incl. exact zeros; single-salt precipitation systems started "
                 "under-/exactly-/over-saturated with and without solid) solved by root/roots/solve/solve_equilibrium under each solver "
                 "chain; for every solver invocation of the fault-free run each SimSolver fault kind is injected once, on re-used "
                 "solver objects, followed by a fault-free recovery call. evaluations = chempy entry-point calls. state = (entry "
                 "point, chain, system kind, configured fault kinds, fired fault kinds, invocation index, outcome flags, phase); "
                 "trivial = configured fault that never fired, or the NumSysLinTanh TypeError refusal"),
        "real_components": ["chempy.equilibria.EqSystem (root, roots, solve, _solve, _result_is_sane, precipitation conditions, dissolved)",
                            "chempy._eqsys NumSysLog/NumSysLin/NumSysSquare/NumSysLinRel and EqCalcResult", "chempy._equilibrium.solve_equilibrium",
                            "pyneqsys 0.5.7 (SymbolicSys, ChainedNeqSys, ConditionalNeqSys)", "scipy.optimize.root / brentq", "sympy lambdify"],
        "stubbed_components": ["the solver backend pyneqsys dispatches to: NeqSys._solve_verifsim (selected through $PYNEQSYS_SOLVER) wraps the "
                               "real _solve_scipy and injects the per-invocation faults; with an empty plan it passes through unchanged"],
        "assumptions": ["a solver that reports success=True with an altered iterate (Byzantine) is outside the fault model",
                        "tolerances fixed in DESIGN.md: conservation 1e-6 relative, |ln Q - ln K| <= 1e-5, recovery/agreement 1e-9, brentq agreement 1e-6",
                        "liveness is judged on a fixed, VERIF_SEED-independent panel in the well-conditioned sub-domain (<= 3 equilibria, constants +-1 decade, starts 1e-5..1e-1), threshold 19/20",
                        "conservation: 1e-6 of the component's own scale or of the largest solute concentration, whichever is larger (the solver works to 1e-8 of the whole unknown vector)",
                        "flag honesty (S2): root (last invocation) and, on homogeneous systems, every point of roots/solve (last of the S invocations serving it)",
                        "arrays returned by earlier calls of a history must not change in place later; the scalar solver is compared with the chain root (constant activity factor) or with an own bisection (composition-dependent activity factor)"],
        "extra": {"fault_kinds": NSV.FAULT_KINDS + ["activity_callback_raise (user callback of the scalar solver raises from its k-th call on)",
                                                    "user changes an equilibrium constant / re-orders substances / fixes the phase assumption between calls (history steps, not faults)"]},
    }
