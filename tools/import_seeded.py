#!/venv/bin/python
"""tools/import_seeded.py <agent-dir-name> [round]: copies a sub-agent's output from /tmp/seeded-out/<agent>/ into /verif/seeded/."""
import os, shutil, json, glob, sys
agent = sys.argv[1]
rnd = sys.argv[2] if len(sys.argv) > 2 else "3"
d = os.path.join('/tmp/seeded-out', agent)
prop = 'C' + agent[1:3]
for diff in sorted(glob.glob(os.path.join(d, 'change*.diff'))):
    i = os.path.basename(diff)[6:-5]
    sid = '%s-%s%s' % (prop, agent[3:], i)
    out = os.path.join('/verif/seeded', sid)
    os.makedirs(out, exist_ok=True)
    shutil.copy(diff, os.path.join(out, 'patch.diff'))
    shutil.copy(os.path.join(d, 'demo%s.py' % i), os.path.join(out, 'demo.py'))
    if os.path.exists(os.path.join(d, 'notes%s.md' % i)):
        shutil.copy(os.path.join(d, 'notes%s.md' % i), os.path.join(out, 'notes.md'))
    mp = os.path.join(out, 'meta.json')
    if not os.path.exists(mp):
        json.dump({"id": sid, "property": prop, "source": "fresh sub-agent %s, round %s (given only the property text and a scratch worktree)" % (agent, rnd),
                   "needs_to_manifest": "see notes.md", "checks_to_run": [prop]}, open(mp, 'w'), indent=1)
    print(sid)
