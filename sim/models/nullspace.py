# -*- coding: utf-8 -*-
"""Exact (Fraction) linear algebra used as ground truth for C02: reduced row echelon form,
null space, primitive ray, strict-positivity feasibility of a cone (Fourier-Motzkin),
minimal coefficient sum of positive integer solutions (bounded enumeration)."""
from fractions import Fraction
from functools import reduce
from itertools import product
from math import gcd


def rref(A):
    """A: list of rows of Fractions.  Returns (R, pivots)."""
    R = [list(map(Fraction, row)) for row in A]
    nrow = len(R)
    ncol = len(R[0]) if R else 0
    pivots = []
    r = 0
    for c in range(ncol):
        piv = None
        for i in range(r, nrow):
            if R[i][c] != 0:
                piv = i
                break
        if piv is None:
            continue
        R[r], R[piv] = R[piv], R[r]
        pv = R[r][c]
        R[r] = [x / pv for x in R[r]]
        for i in range(nrow):
            if i != r and R[i][c] != 0:
                f = R[i][c]
                R[i] = [a - f * b for a, b in zip(R[i], R[r])]
        pivots.append(c)
        r += 1
        if r == nrow:
            break
    return R, pivots


def nullspace(A, ncol):
    """Basis of {x : A x = 0} as list of Fraction vectors (one per free column)."""
    if not A:
        return [[Fraction(int(i == j)) for i in range(ncol)] for j in range(ncol)]
    R, piv = rref(A)
    free = [c for c in range(ncol) if c not in piv]
    basis = []
    for f in free:
        v = [Fraction(0)] * ncol
        v[f] = Fraction(1)
        for r, p in enumerate(piv):
            v[p] = -R[r][f]
        basis.append(v)
    return basis


def primitive(v):
    """Scale a rational vector to coprime integers (sign untouched)."""
    den = reduce(lambda a, b: a * b // gcd(a, b), [x.denominator for x in v], 1)
    ints = [int(x * den) for x in v]
    g = reduce(gcd, [abs(i) for i in ints], 0)
    if g == 0:
        return ints
    return [i // g for i in ints]


def strictly_positive_feasible(basis):
    """Is there t with (sum_j t_j basis_j)_i > 0 for all i?  Fourier-Motzkin on strict
    homogeneous inequalities, exact."""
    if not basis:
        return False
    n = len(basis[0])
    rows = [[basis[j][i] for j in range(len(basis))] for i in range(n)]
    d = len(basis)
    for var in range(d - 1, -1, -1):
        pos = [r for r in rows if r[var] > 0]
        neg = [r for r in rows if r[var] < 0]
        zero = [r for r in rows if r[var] == 0]
        new = [r[:var] for r in zero]
        for p in pos:
            for q in neg:
                new.append([a / p[var] + b / (-q[var]) for a, b in zip(p[:var], q[:var])])
        rows = new
        if var == 0:
            break
        # a row that is identically zero reads 0 > 0
        if any(all(x == 0 for x in r) for r in rows):
            return False
        # drop duplicates to keep it small
        seen, uniq = set(), []
        for r in rows:
            t = tuple(r)
            if t not in seen:
                seen.add(t)
                uniq.append(r)
        rows = uniq
    # after eliminating every variable the remaining rows all read 0 > 0
    return len(rows) == 0


def is_solution(A, x):
    return all(sum(Fraction(a) * Fraction(b) for a, b in zip(row, x)) == 0 for row in A)


def min_positive_sum(A, ncol, bound):
    """Minimal sum over positive integer solutions of A x = 0 with sum <= bound, by
    enumerating the free columns.  Returns (min_sum, witness) or (None, None)."""
    if A:
        R, piv = rref(A)
    else:
        R, piv = [], []
    free = [c for c in range(ncol) if c not in piv]
    best, wit = None, None
    if len(free) > 4:
        return None, None
    rng = range(1, bound - ncol + 2)
    if len(rng) ** len(free) > 150000:
        return None, None  # too large to enumerate: minimality is not asserted for this case
    for vals in product(rng, repeat=len(free)):
        if sum(vals) > bound:
            continue
        x = [None] * ncol
        for f, v in zip(free, vals):
            x[f] = Fraction(v)
        ok = True
        for r, p in enumerate(piv):
            v = -sum(R[r][f] * x[f] for f in free)
            if v <= 0 or v.denominator != 1:
                ok = False
                break
            x[p] = v
        if not ok:
            continue
        s = int(sum(x))
        if best is None or s < best:
            best, wit = s, [int(v) for v in x]
    if best is not None and best > bound:
        return None, None
    return best, wit
