# -*- coding: utf-8 -*-
"""C11 - arithmetic on equilibria keeps the constant consistent with the stoichiometry.

Seeded operation histories over persistent ``chempy.Equilibrium`` objects, checked after
every step against the exact algebraic reference model (sim/models/eqalgebra.py).  The
"faults" of this property are refused operations (zero net effect) and the hash-seed
configuration; see DESIGN.md section 3.3.
"""
from __future__ import annotations

from collections import OrderedDict
from fractions import Fraction

from .. import core
from ..models.eqalgebra import EqModel, to_fraction, is_pos_int

PROPERTY = "C11"
LEVEL = "exploration"
QUICK_RUNS = 16000
THOROUGH_BUDGET_S = 1500
THOROUGH_BATCH = 8000
CROSS_RUNS_QUICK = 120
CROSS_RUNS_THOROUGH = 400
RUN_TIMEOUT_S = 60
TIMEOUT_IS_VIOLATION = True
CBOUND = 12  # bound on |c_i| of the model vector of anything that is executed

PRIMES = [2, 3, 5, 7, 11, 13, 17, 19, 23, 29, 31, 37]
SPECIES = ["H+", "OH-", "H2O", "NH3", "NH4+", "Cu+2", "CuNH3+2", "e-", "Fe+3", "Fe+2", "A", "B"]


# ----------------------------------------------------------------------------- generation


def gen_case(seed, run, tier):
    rw = core.stream(seed, "c11/workload", run)
    rs = core.stream(seed, "c11/swarm", run)
    const_kind = rs.choice(["fraction", "fraction", "sympy_rational", "symbol"])
    catalysts = rs.random() < 0.25
    ordered_input = rs.random() < 0.3  # hand OrderedDicts (kept by reference) to the constructor
    deep = tier == "thorough"
    nsp = rs.randint(3, 10 if deep else 8)
    species = rs.sample(SPECIES, nsp)
    nb = rs.randint(2, 5 if deep else 4)
    maxcoef = rs.choice([1, 2, 3, 4, 6])
    enabled = set(["scale", "add", "sub"])
    for name, p in (("neg", 0.7), ("combo", 0.6), ("eliminate", 0.7), ("as_reactions", 0.4),
                    ("eq", 0.3), ("cancel", 0.3), ("zero", 0.4), ("selfsub", 0.4), ("set_param", 0.5), ("peek", 0.5),
                    ("dontcheck", 0.3), ("set_none", 0.25)):
        if rs.random() < p:
            enabled.add(name)
    nops = rs.randint(3, 45 if deep else 25)
    primes = rw.sample(PRIMES, nb * 2)
    bases = []
    for i in range(nb):
        for _attempt in range(50):
            k = rw.randint(2, min(4, nsp))
            sp = rw.sample(species, k)
            nreac = rw.randint(1, k - 1)
            reac = {s: rw.randint(1, maxcoef) for s in sp[:nreac]}
            prod = {s: rw.randint(1, maxcoef) for s in sp[nreac:]}
            if catalysts and rw.random() < 0.5:
                cat = rw.choice(species)
                m = rw.randint(1, 2)
                reac[cat] = reac.get(cat, 0) + m
                prod[cat] = prod.get(cat, 0) + m
            net = {s: prod.get(s, 0) - reac.get(s, 0) for s in set(reac) | set(prod)}
            if any(net.values()):
                break
        if const_kind == "fraction":
            K = "%d/%d" % (primes[2 * i], primes[2 * i + 1]) if rw.random() < 0.5 else str(primes[2 * i])
        elif const_kind == "sympy_rational":
            K = "%d/%d" % (primes[2 * i], primes[2 * i + 1]) if rw.random() < 0.5 else str(primes[2 * i])
        else:
            K = "K%d" % i
        bases.append({"reac": reac, "prod": prod, "K": K})
    # model-side bookkeeping only to propose sensible operands
    model = EqModel([_decode_base(b, const_kind) for b in bases], const_kind)
    vecs = OrderedDict(("b%d" % i, model.unit(i)) for i in range(nb))
    ops = []
    kinds = sorted(enabled)
    weights = {"scale": 5, "add": 5, "sub": 5, "neg": 2, "combo": 3, "eliminate": 3, "as_reactions": 1,
               "eq": 1, "cancel": 1, "zero": 1, "selfsub": 1, "set_param": 2, "peek": 2, "dontcheck": 1, "set_none": 1}
    spare = [q for q in PRIMES + [41, 43, 47, 53, 59, 61, 67, 71] if q not in primes]
    for oid in range(nops):
        kind = rw.choices(kinds, [weights[k] for k in kinds])[0]
        ids = list(vecs)
        a = rw.choice(ids)
        b = rw.choice(ids)
        c = rw.choice(ids)
        op = {"id": oid, "op": kind, "a": a}
        res = None
        if kind == "scale":
            n = rw.choice([-4, -3, -2, -1, 1, 2, 3, 4, 2, -1])
            op.update(n=n, ntype=rw.choice(["int", "int", "sympy"]), side=rw.choice(["l", "r"]))
            res = model.scale(vecs[a], n)
        elif kind == "zero":
            op.update(op="scale", n=0, ntype=rw.choice(["int", "sympy"]), side=rw.choice(["l", "r"]))
        elif kind == "neg":
            res = model.scale(vecs[a], -1)
        elif kind == "add":
            op["b"] = b
            res = model.add(vecs[a], vecs[b])
        elif kind == "sub":
            op["b"] = b
            res = model.add(vecs[a], model.scale(vecs[b], -1))
        elif kind == "selfsub":
            op.update(op="sub", b=a)
        elif kind == "combo":
            n, m = rw.choice([-3, -2, -1, 1, 2, 3]), rw.choice([-3, -2, -1, 1, 2, 3])
            op.update(b=b, c=c, n=n, m=m)
            res = model.add(model.add(model.scale(vecs[a], n), model.scale(vecs[b], m)), model.scale(vecs[c], -1))
        elif kind == "eliminate":
            na, nb_ = model.net(vecs[a]), model.net(vecs[b])
            shared = sorted(k for k in na if k in nb_)
            if not shared or a == b:
                continue
            key = rw.choice(shared)
            op.update(b=b, key=key, seq=rw.choice(["list", "list", "tuple", "generator", "iter"]))
            va, vb = na[key], nb_[key]
            from math import gcd

            l = abs(va * vb) // gcd(va, vb)
            res = model.add(model.scale(vecs[a], -l // va), model.scale(vecs[b], l // vb))
        elif kind == "as_reactions":
            op.update(which=rw.choice(["kf", "kb"]), val=rw.choice([1, 3, 10, 7]), units=(const_kind == "fraction" and rw.random() < 0.4))
        elif kind == "peek":
            op.update(key=rw.choice(species + ["Zz"]), side=rw.choice(["reac", "prod"]))
        elif kind == "dontcheck":
            op.update(which=rw.choice(["any_effect", "all_positive", "all_integral"]))
        elif kind == "set_none":
            op.update(op="set_param", prime=None)
        elif kind == "set_param":
            if not spare:
                continue
            op["prime"] = spare.pop(rw.randrange(len(spare)))
        elif kind in ("eq", "cancel"):
            op["b"] = b
        ops.append(op)
        if res is not None and max(abs(x) for x in res) <= CBOUND and model.net(res):
            vecs["r%d" % oid] = res
    return {
        "property": PROPERTY,
        "config": {"const_kind": const_kind, "ordered_input": ordered_input},
        "bases": bases,
        "ops": ops,
    }


def _decode_base(b, const_kind):
    if const_kind == "symbol":
        import sympy

        K = sympy.Symbol(b["K"], positive=True)
    elif const_kind == "sympy_rational":
        import sympy

        K = sympy.Rational(b["K"])
    else:
        K = Fraction(b["K"])
    return {"reac": dict(b["reac"]), "prod": dict(b["prod"]), "K": K}


# ----------------------------------------------------------------------------- execution


def _snap(e):
    return (tuple(e.reac.items()), tuple(e.prod.items()), tuple(e.inact_reac.items()),
            tuple(e.inact_prod.items()), e.param)


def _show(e):
    return {"reac": sorted((k, int(v)) for k, v in e.reac.items()),
            "prod": sorted((k, int(v)) for k, v in e.prod.items()),
            "K": str(e.param)}


def _mk_n(n, ntype):
    if ntype == "sympy":
        import sympy

        return sympy.Integer(n)
    return int(n)


def _canary():
    """Fixed mini-scenario whose outcome must be the same before and after any history: admission checks of freshly
    constructed objects.  A difference means the history left process-global state behind (e.g. a mutated class attribute)."""
    from chempy import Equilibrium

    out = []
    for args, kw in ((({"A": 1}, {"B": 1}, 3), {}), (({"A": 0}, {"B": 0}, 1), {}), (({"A": 1}, {"A": 1}, 1), {}),
                     (({"A": -1}, {"B": 1}, 2), {}), (({"A": 1.5}, {"B": 1}, 2), {})):
        try:
            Equilibrium(*args, **kw)
            out.append("ok")
        except Exception as ex:
            out.append(core.exc_tag(ex))
    try:
        e = Equilibrium({"A": 1}, {"B": 1}, 3)
        out.append("0*e:" + ("ok" if isinstance(0 * e, Equilibrium) else "other"))
    except Exception as ex:
        out.append("0*e:" + core.exc_tag(ex))
    return out


def execute(case):
    from chempy import Equilibrium
    from chempy.chemistry import Reaction

    canary_before = _canary()

    cfg = case["config"]
    ck = cfg["const_kind"]
    bases = [_decode_base(b, "symbol" if ck == "symbol" else ck) for b in case["bases"]]
    model = EqModel([dict(b, K=(b["K"] if ck == "symbol" else to_fraction(b["K"]))) for b in bases], ck)
    hist, viols, stats, states = [], [], {}, set()

    def bump(k, n=1):
        stats[k] = stats.get(k, 0) + n

    pool = OrderedDict()  # id -> [obj, cvec, snapshot]
    caller_dicts = []
    for i, b in enumerate(bases):
        if cfg.get("ordered_input"):
            r, p = OrderedDict(sorted(b["reac"].items())), OrderedDict(sorted(b["prod"].items()))
            caller_dicts.append((r, tuple(r.items())))
            caller_dicts.append((p, tuple(p.items())))
        else:
            r, p = dict(b["reac"]), dict(b["prod"])
        try:
            e = Equilibrium(r, p, b["K"])
        except Exception as ex:  # a base the constructor refuses: nothing to test
            hist.append({"op": "construct", "i": i, "outcome": "raise:" + core.exc_tag(ex)})
            continue
        pool["b%d" % i] = [e, model.unit(i), _snap(e), model.const(model.unit(i))]

    def kpow(k, n):
        return None if k is None else k ** int(n)

    def kmul(*ks):
        """Product of expected constants; 'MIXED' when some but not all are None (chempy cannot multiply those)."""
        if all(k is None for k in ks):
            return None
        if any(k is None for k in ks):
            return "MIXED"
        r = ks[0]
        for k in ks[1:]:
            r = r * k
        return r

    def kequal(observed, expected):
        if expected is None or observed is None:
            return expected is None and observed is None
        if ck == "symbol":
            import sympy

            try:
                return sympy.simplify(sympy.sympify(observed) / expected) == 1
            except Exception:
                return False
        return to_fraction(observed) == to_fraction(expected)

    def check_obj(e, cvec, opname, idx, netted, sig_extra=None, kexp=None):
        """Full conformance of one object with its model vector."""
        sig = {"op": opname}
        sig.update(sig_extra or {})
        bad = False
        for side in ("reac", "prod", "inact_reac", "inact_prod"):
            for k, v in getattr(e, side).items():
                if not is_pos_int(v):
                    viols.append(core.violation("nonpositive_coeff", "%s[%r]=%r after %s" % (side, k, v, opname), sig, idx))
                    bad = True
        if e.inact_reac or e.inact_prod:
            viols.append(core.violation("inactive_invented", "inactive part appeared after %s" % opname, sig, idx))
            bad = True
        if netted and set(e.reac) & set(e.prod):
            viols.append(core.violation("not_netted", "species on both sides after %s: %s" % (opname, sorted(set(e.reac) & set(e.prod))), sig, idx))
            bad = True
        exp_net = model.net(cvec)
        keys = sorted(set(exp_net) | set(e.reac) | set(e.prod))
        try:
            obs = dict((k, int(v)) for k, v in zip(keys, e.net_stoich(keys)) if v != 0)
        except Exception as ex:
            obs = {"!": core.exc_tag(ex)}
        if obs != exp_net:
            viols.append(core.violation("net_mismatch", "after %s: observed net %s expected %s" % (opname, sorted(obs.items()), sorted(exp_net.items())), sig, idx))
            bad = True
        if netted:
            listed = set(e.reac) | set(e.prod)
            if listed != set(exp_net):
                viols.append(core.violation("not_netted", "cancelled species still listed after %s: %s" % (opname, sorted(listed - set(exp_net))), sig, idx))
                bad = True
        if not kequal(e.param, kexp):
            viols.append(core.violation("const_mismatch", "after %s: constant %s expected %s (vector %s)" % (opname, e.param, kexp, list(cvec)), sig, idx))
            bad = True
        return not bad

    def check_untouched(idx, opname, exclude=()):
        for pid, (obj, cvec, snap, _k) in pool.items():
            if pid in exclude:
                continue
            now = _snap(obj)
            if now != snap:
                viols.append(core.violation("operand_mutated", "%s changed by %s: %s -> %s" % (pid, opname, snap, now), {"op": opname}, idx))
                pool[pid][2] = now  # report once
        for d, snap in caller_dicts:
            if tuple(d.items()) != snap:
                viols.append(core.violation("caller_dict_mutated", "constructor argument changed by %s" % opname, {"op": opname}, idx))

    for idx, op in enumerate(case["ops"]):
        kind = op["op"]
        need = [op[x] for x in ("a", "b", "c") if x in op]
        if any(x not in pool for x in need):
            hist.append({"i": idx, "op": kind, "outcome": "skipped:operand_missing"})
            continue
        A = pool[op["a"]]
        B = pool[op["b"]] if "b" in op else None
        C = pool[op["c"]] if "c" in op else None
        rid = "r%d" % op["id"]
        rec = {"i": idx, "op": kind, "args": {k: op[k] for k in op if k not in ("id", "op")}}
        res_vec = None
        netted = False
        fn = None
        if kind == "scale":
            n = _mk_n(op["n"], op["ntype"])
            res_vec = model.scale(A[1], op["n"])
            res_k = kpow(A[3], op["n"])
            fn = (lambda: n * A[0]) if op["side"] == "l" else (lambda: A[0] * n)
        elif kind == "neg":
            res_vec = model.scale(A[1], -1)
            res_k = kpow(A[3], -1)
            fn = lambda: -A[0]
        elif kind == "add":
            res_vec = model.add(A[1], B[1])
            res_k = kmul(A[3], B[3])
            netted = True
            fn = lambda: A[0] + B[0]
        elif kind == "sub":
            res_vec = model.add(A[1], model.scale(B[1], -1))
            res_k = kmul(A[3], kpow(B[3], -1))
            netted = True
            fn = lambda: A[0] - B[0]
        elif kind == "combo":
            inter = model.add(model.scale(A[1], op["n"]), model.scale(B[1], op["m"]))
            res_vec = model.add(inter, model.scale(C[1], -1))
            res_k = kmul(kpow(A[3], op["n"]), kpow(B[3], op["m"]), kpow(C[3], -1))
            netted = True
            fn = lambda: op["n"] * A[0] + op["m"] * B[0] - C[0]
            if not model.net(inter):  # the intermediate sum has no net effect: refusal is legitimate
                res_vec = None
                rec["outcome"] = "skipped:intermediate_zero"
                hist.append(rec)
                continue
        if fn is not None:
            if max(abs(x) for x in res_vec) > CBOUND:
                rec["outcome"] = "skipped:bound"
                hist.append(rec)
                continue
            exp_net = model.net(res_vec)
            try:
                out = fn()
            except Exception as ex:
                rec["outcome"] = "raise:" + core.exc_tag(ex)
                bump("refused")
                if exp_net and res_k == "MIXED":
                    bump("fault_fired:refused_mixed_none_constant")
                elif exp_net:
                    viols.append(core.violation("refused_valid", "%s raised %s although the result has net effect %s" % (kind, core.exc_tag(ex), sorted(exp_net.items())), {"op": kind, "exc": core.exc_tag(ex)}, idx))
                else:
                    bump("fault_fired:refused_zero_net")
                states.add((kind, "refused", core.exc_tag(ex)))
                check_untouched(idx, kind)
                hist.append(rec)
                continue
            if not isinstance(out, Equilibrium):
                viols.append(core.violation("wrong_type", "%s returned %s" % (kind, type(out).__name__), {"op": kind}, idx))
                rec["outcome"] = "returned:" + type(out).__name__
                hist.append(rec)
                continue
            if res_k == "MIXED":
                viols.append(core.violation("const_mismatch", "%s of an equilibrium with a constant and one without returned constant %r instead of refusing" % (kind, out.param), {"op": kind, "mixed_none": True}, idx))
                res_k = out.param
            ok = check_obj(out, res_vec, kind, idx, netted, kexp=res_k)
            check_untouched(idx, kind)
            rec["outcome"] = "ok" if ok else "bad"
            rec["result"] = _show(out)
            pool[rid] = [out, res_vec, _snap(out), res_k]
            depth = sum(1 for x in res_vec if x)
            states.add((kind, "ok", min(depth, 4), min(max(abs(x) for x in res_vec), 6), len(out.reac) + len(out.prod),
                        bool(set(model.net(A[1])) & set(model.net(B[1]))) if B else False))
            bump("op:" + kind)
            hist.append(rec)
            continue
        if kind == "eliminate":
            key = op["key"]
            na, nb_ = model.net(A[1]), model.net(B[1])
            if key not in na or key not in nb_:
                rec["outcome"] = "skipped:key_not_shared"
                hist.append(rec)
                continue
            if max(abs(na[key]), abs(nb_[key])) > 6:
                rec["outcome"] = "skipped:bound"
                hist.append(rec)
                continue
            allunit = abs(na[key]) == 1 and abs(nb_[key]) == 1
            sig = {"op": "eliminate", "all_unit_coeffs": allunit}
            seqk = op.get("seq", "list")
            operands = {"list": lambda: [A[0], B[0]], "tuple": lambda: (A[0], B[0]), "generator": lambda: (e_ for e_ in (A[0], B[0])),
                        "iter": lambda: iter([A[0], B[0]])}[seqk]()
            try:
                mult = Equilibrium.eliminate(operands, key)
            except Exception as ex:
                rec["outcome"] = "raise:" + core.exc_tag(ex)
                sig["exc"] = core.exc_tag(ex)
                viols.append(core.violation("eliminate_refused", "eliminate raised %s for coefficients %d, %d of %s" % (core.exc_tag(ex), na[key], nb_[key], key), sig, idx))
                check_untouched(idx, kind)
                states.add(("eliminate", "raise", core.exc_tag(ex), allunit))
                hist.append(rec)
                continue
            bump("op:eliminate")
            good = (isinstance(mult, (list, tuple)) and len(mult) == 2 and
                    all(_is_nonzero_int(m) for m in mult))
            if good:
                m1, m2 = int(mult[0]), int(mult[1])
                good = m1 * na[key] + m2 * nb_[key] == 0
            rec["mult"] = [str(m) for m in mult] if isinstance(mult, (list, tuple)) else repr(mult)
            if not good:
                viols.append(core.violation("eliminate_wrong", "multipliers %s do not eliminate %s (coefficients %d, %d)" % (rec["mult"], key, na[key], nb_[key]), sig, idx))
                rec["outcome"] = "bad"
                check_untouched(idx, kind)
                hist.append(rec)
                continue
            res_vec = model.add(model.scale(A[1], m1), model.scale(B[1], m2))
            states.add(("eliminate", "ok", abs(na[key]), abs(nb_[key]), na[key] * nb_[key] > 0))
            if max(abs(x) for x in res_vec) > 6 * CBOUND:
                rec["outcome"] = "ok:combination_skipped_bound"
                check_untouched(idx, kind)
                hist.append(rec)
                continue
            exp_net = model.net(res_vec)
            mixed = kmul(kpow(A[3], m1), kpow(B[3], m2)) == "MIXED"
            try:
                out = mult[0] * A[0] + mult[1] * B[0]
            except Exception as ex:
                rec["outcome"] = "combine_raise:" + core.exc_tag(ex)
                if exp_net and not mixed:
                    viols.append(core.violation("refused_valid", "combination after eliminate raised %s" % core.exc_tag(ex), {"op": "eliminate_combine", "exc": core.exc_tag(ex)}, idx))
                check_untouched(idx, kind)
                hist.append(rec)
                continue
            res_k = kmul(kpow(A[3], m1), kpow(B[3], m2))
            if mixed:
                viols.append(core.violation("const_mismatch", "combination of an equilibrium with a constant and one without returned constant %r instead of refusing" % (out.param,), {"op": "eliminate_combine", "mixed_none": True}, idx))
                res_k = out.param
            ok = check_obj(out, res_vec, "eliminate_combine", idx, True, kexp=res_k)
            if key in out.reac or key in out.prod:
                viols.append(core.violation("eliminate_wrong", "combination still contains %s" % key, sig, idx))
                ok = False
            check_untouched(idx, kind)
            rec["outcome"] = "ok" if ok else "bad"
            rec["result"] = _show(out)
            if max(abs(x) for x in res_vec) <= CBOUND:
                pool[rid] = [out, res_vec, _snap(out), res_k]
            hist.append(rec)
            continue
        if kind == "dontcheck":
            # an unrelated construction that uses the (legal, rarely used) dont_check option: must leave no trace
            try:
                Equilibrium(dict(A[0].reac), dict(A[0].prod), A[0].param, dont_check={op["which"]})
                rec["outcome"] = "ok"
            except Exception as ex:
                rec["outcome"] = "raise:" + core.exc_tag(ex)
            check_untouched(idx, kind)
            bump("op:dontcheck")
            states.add(("dontcheck", op["which"]))
            hist.append(rec)
            continue
        if kind == "peek":
            # the user reads a coefficient by subscript; reading must not change the object
            try:
                val = getattr(A[0], op["side"])[op["key"]]
                rec["outcome"] = "ok:%s" % int(val)
            except KeyError:
                rec["outcome"] = "raise:KeyError"
            except Exception as ex:
                rec["outcome"] = "raise:" + core.exc_tag(ex)
            check_untouched(idx, kind)
            bump("op:peek")
            states.add(("peek", rec["outcome"].split(":")[0]))
            hist.append(rec)
            continue
        if kind == "set_param":
            # the user assigns a new constant to a live object (objects are mutable): later expressions must use it,
            # earlier results must keep theirs
            if op["prime"] is None:
                newk = None
            elif ck == "symbol":
                import sympy

                newk = sympy.Symbol("Q%d" % op["prime"], positive=True)
            elif ck == "sympy_rational":
                import sympy

                newk = sympy.Integer(op["prime"])
            else:
                newk = Fraction(op["prime"])
            A[0].param = newk
            A[3] = newk
            A[2] = _snap(A[0])
            check_untouched(idx, kind)
            rec["outcome"] = "ok"
            bump("op:set_param")
            states.add(("set_param", "ok", op["a"].startswith("b")))
            hist.append(rec)
            continue
        if kind == "as_reactions" and A[3] is None:
            rec["outcome"] = "skipped:no_constant"
            hist.append(rec)
            continue
        if kind == "as_reactions" and op.get("units"):
            from chempy.units import default_units as u, to_unitless

            e = A[0]
            nf, nb = sum(e.reac.values()), sum(e.prod.values())
            kfloat = float(to_fraction(e.param))
            ef = Equilibrium(dict(e.reac), dict(e.prod), kfloat)
            which = op["which"]
            order = nf if which == "kf" else nb
            given = float(op["val"]) * u.molar ** (1 - order) / u.s
            try:
                fw, bw = ef.as_reactions(units=u, **{which: given})
                ratio = to_unitless(fw.param / bw.param / (kfloat * u.molar ** (nb - nf)))
                okk = abs(float(ratio) - 1.0) <= 1e-12
            except Exception as ex:
                rec["outcome"] = "raise:" + core.exc_tag(ex)
                viols.append(core.violation("as_reactions_refused", "as_reactions(%s=<quantity>, units=...) raised %s (nf=%d nb=%d)" % (which, core.exc_tag(ex), nf, nb), {"op": "as_reactions", "units": True, "exc": core.exc_tag(ex)}, idx))
                hist.append(rec)
                continue
            if not okk:
                viols.append(core.violation("as_reactions_wrong", "with units: kf/kb / (K c0^dn) = %r" % float(ratio), {"op": "as_reactions", "which": which, "units": True}, idx))
            check_untouched(idx, kind)
            rec["outcome"] = "ok" if okk else "bad"
            states.add(("as_reactions", which, "units", nb - nf != 0))
            bump("op:as_reactions_units")
            hist.append(rec)
            continue
        if kind == "as_reactions":
            val = Fraction(op["val"]) if ck == "fraction" else __import__("sympy").Integer(op["val"])
            e = A[0]
            try:
                fw, bw = e.as_reactions(**{op["which"]: val})
            except Exception as ex:
                rec["outcome"] = "raise:" + core.exc_tag(ex)
                viols.append(core.violation("as_reactions_refused", "as_reactions(%s=...) raised %s" % (op["which"], core.exc_tag(ex)), {"op": "as_reactions", "exc": core.exc_tag(ex)}, idx))
                hist.append(rec)
                continue
            ok = True
            if not (isinstance(fw, Reaction) and isinstance(bw, Reaction)):
                ok = False
            else:
                if dict(fw.reac) != dict(e.reac) or dict(fw.prod) != dict(e.prod):
                    ok = False
                if dict(bw.reac) != dict(e.prod) or dict(bw.prod) != dict(e.reac):
                    ok = False
                try:
                    # chempy multiplies by c0**(nb - nf) with c0 = 1, a float for nb < nf, so the
                    # pair is only required to reproduce K to rounding, not symbol for symbol
                    ratio = (fw.param / bw.param) / e.param
                    if ck == "symbol":
                        import sympy

                        ratio = sympy.simplify(ratio)
                    if abs(float(ratio) - 1.0) > 1e-12:
                        ok = False
                    given = fw.param if op["which"] == "kf" else bw.param
                    if given != val:
                        ok = False
                except Exception:
                    ok = False
            if not ok:
                viols.append(core.violation("as_reactions_wrong", "forward/backward pair inconsistent with %s" % _show(e), {"op": "as_reactions", "which": op["which"]}, idx))
            check_untouched(idx, kind)
            rec["outcome"] = "ok" if ok else "bad"
            states.add(("as_reactions", op["which"], ok))
            bump("op:as_reactions")
            hist.append(rec)
            continue
        if kind in ("eq", "cancel"):
            try:
                if kind == "eq":
                    r = A[0] == B[0]
                    want = _snap(A[0]) == _snap(B[0]) or (
                        dict(A[0].reac) == dict(B[0].reac) and dict(A[0].prod) == dict(B[0].prod) and A[0].param == B[0].param)
                    rec["outcome"] = "ok:%s" % bool(r)
                    if bool(r) != bool(want):
                        viols.append(core.violation("eq_wrong", "== returned %s for %s vs %s" % (r, _show(A[0]), _show(B[0])), {"op": "eq"}, idx))
                else:
                    A[0].cancel(B[0])  # value is tie-broken by set order: not part of the outcome
                    rec["outcome"] = "ok"
            except Exception as ex:
                rec["outcome"] = "raise:" + core.exc_tag(ex)
            check_untouched(idx, kind)
            bump("op:" + kind)
            states.add((kind, rec["outcome"].split(":")[0]))
            hist.append(rec)
            continue
        raise core.HarnessError("unknown op %r" % kind)

    # final sweep: every live object still conforms to its model vector (catches late aliasing)
    for pid, (obj, cvec, snap, kexp) in pool.items():
        check_obj(obj, cvec, "final_sweep", None, False, {"late": True}, kexp=kexp)
    bump("live_objects", len(pool))
    canary_after = _canary()
    if canary_after != canary_before:
        viols.append(core.violation("process_state_leak", "admission of fresh objects changed during the history: %s -> %s" % (canary_before, canary_after),
                                    {"op": "canary"}, None))
    return {"history": hist, "violations": _dedup(viols), "stats": stats, "states": sorted(states, key=repr)}


def _is_nonzero_int(m):
    if isinstance(m, bool):
        return False
    if isinstance(m, int):
        return m != 0
    try:
        import sympy

        return isinstance(m, sympy.Integer) and int(m) != 0
    except ImportError:
        return False


def _dedup(viols):
    seen, out = set(), []
    for v in viols:
        k = (v["class"], core.canon(v["sig"]), v["op_index"])
        if k not in seen:
            seen.add(k)
            out.append(v)
    return out


# ----------------------------------------------------------------------------- shrinking


def shrink(case, still_fails):
    def with_ops(ops):
        c = dict(case)
        c["ops"] = ops
        return c

    ops = core.ddmin_list(case["ops"], lambda o: still_fails(with_ops(o)), budget=[300])
    cur = with_ops(ops)
    # simplify scalars towards +-1/2
    for i, op in enumerate(list(cur["ops"])):
        for fld in ("n", "m"):
            if fld in op and abs(op[fld]) > 1:
                for cand in (1, -1, 2, -2):
                    if cand == op[fld]:
                        continue
                    trial = [dict(o) for o in cur["ops"]]
                    trial[i][fld] = cand
                    if still_fails(with_ops(trial)):
                        cur = with_ops(trial)
                        break
        if op.get("ntype") == "sympy":
            trial = [dict(o) for o in cur["ops"]]
            trial[i]["ntype"] = "int"
            if still_fails(with_ops(trial)):
                cur = with_ops(trial)
    if cur["config"].get("ordered_input"):
        t = dict(cur)
        t["config"] = dict(cur["config"], ordered_input=False)
        if still_fails(t):
            cur = t
    return cur


# ----------------------------------------------------------------------------- reporting


def is_trivial_state(s):
    return s[1] in ("refused", "raise") or s[0] in ("eq", "cancel", "peek", "dontcheck")


def describe():
    return {
        "rule": ("seeded histories (3-25 operations) of scale/negate/add/subtract/compound/eliminate/as_reactions over a pool of "
                 "2-4 base equilibria and all their earlier results; a state is the tuple (operation kind, outcome, number of bases "
                 "involved, largest multiplier, species listed, operands share a species); trivial = refused operations and "
                 "read-only probes (==, cancel)"),
        "real_components": ["chempy.chemistry.Equilibrium (__rmul__/__mul__/__neg__/__add__/__sub__/eliminate/as_reactions/cancel)",
                            "chempy.util.arithmeticdict.ArithmeticDict", "chempy._util.intdiv", "fractions.Fraction", "sympy"],
        "stubbed_components": [],
        "assumptions": ["bases have no inactive parts (the property excludes them)",
                        "model vectors are bounded by |c_i| <= 12 before an operation is executed (exact constants would explode otherwise)",
                        "the value returned by Equilibrium.cancel is not asserted (tie-break depends on set order; outside the property)"],
        "extra": {"fault_kinds": ["refused operation (zero net effect)", "PYTHONHASHSEED variation"]},
    }
