# -*- coding: utf-8 -*-
"""Core of the deterministic simulator: seed streams, history recording, digests,
replay files, delta-debugging minimiser, parallel driver, evidence writer,
known-findings matching.

Nothing in here knows about chempy.  Property modules (sim/props/cXX.py) provide

    PROPERTY        : str
    LEVEL           : 'exploration' | 'fault_enumeration'
    gen_cases(seed, run, tier) -> list[case]       (case: JSON-serialisable dict)
    execute(case)   -> dict(history=[...], violations=[...], stats={...}, states=[...])
    shrink(case, still_fails) -> case               (property-specific reductions)
    describe()      -> dict(rule=..., real_components=[...], ...)

``execute`` must be a pure function of the case and of the code under test: no clock,
no ``id()``, no unordered iteration may reach the history.
"""
from __future__ import annotations

import hashlib
import json
import os
import random
import signal
import sys
import time
import traceback
from collections import Counter
from fractions import Fraction

VERIF_DIR = os.path.dirname(os.path.dirname(os.path.abspath(__file__)))
REPO_DIR = os.environ.get("VERIF_REPO", "/repo")
REPLAY_DIR = os.path.join(VERIF_DIR, "replays")
EVIDENCE_DIR = os.path.join(VERIF_DIR, "evidence")
KNOWN_FINDINGS = os.environ.get("VERIF_KNOWN_FINDINGS") or os.path.join(VERIF_DIR, "known_findings.json")

EXIT_OK, EXIT_VIOLATION, EXIT_HARNESS = 0, 1, 2


class HarnessError(Exception):
    """Something is wrong with the machinery (never reported as a VIOLATION)."""


class OpTimeout(BaseException):
    """Raised by the SIGALRM handler inside a worker; BaseException so that
    ``except Exception`` clauses in the code under test cannot swallow it."""


# --------------------------------------------------------------------------- seeds


def stream(seed, name, run=0):
    """Independent PRNG stream derived from (seed, name, run) by hashing."""
    h = hashlib.sha256(("%d/%s/%d" % (int(seed), name, int(run))).encode()).digest()
    return random.Random(int.from_bytes(h[:16], "big"))


# --------------------------------------------------------------------------- json


def jdefault(o):
    if isinstance(o, Fraction):
        return "%d/%d" % (o.numerator, o.denominator)
    if isinstance(o, (set, frozenset)):
        return sorted(o, key=repr)
    if isinstance(o, tuple):
        return list(o)
    try:
        import numpy as np

        if isinstance(o, np.integer):
            return int(o)
        if isinstance(o, np.floating):
            return float(o)
        if isinstance(o, np.ndarray):
            return o.tolist()
        if isinstance(o, np.bool_):
            return bool(o)
    except ImportError:
        pass
    return repr(o)


def canon(obj):
    return json.dumps(obj, sort_keys=True, default=jdefault, separators=(",", ":"))


def digest(obj):
    return hashlib.sha256(canon(obj).encode()).hexdigest()[:16]


def frac(s):
    """Inverse of the Fraction encoding used in case files ('p/q' or int)."""
    if isinstance(s, Fraction):
        return s
    if isinstance(s, int):
        return Fraction(s)
    if isinstance(s, str):
        return Fraction(s)
    raise TypeError(s)


# --------------------------------------------------------------------------- violations


def violation(klass, detail, sig=None, op_index=None):
    """A violation record.  ``klass`` is the stable violation class used by the
    minimiser ("same violation persists") and by known-findings matching together
    with ``sig`` (the specific input class / call site)."""
    return {
        "class": klass,
        "detail": detail,
        "sig": sig or {},
        "op_index": op_index,
    }


def exc_tag(e):
    """Exception class name only: messages can depend on set order / addresses."""
    return type(e).__name__


# --------------------------------------------------------------------------- known findings


def load_known_findings():
    if not os.path.exists(KNOWN_FINDINGS):
        return {"findings": [], "fixed": []}
    with open(KNOWN_FINDINGS) as f:
        return json.load(f)


def match_known(prop, viol, known):
    """A violation is a known finding iff some listed entry for this property has the
    same class and every key of the entry's signature equals the violation's."""
    for ent in known.get("findings", []):
        if ent.get("property") != prop:
            continue
        if ent.get("class") != viol["class"]:
            continue
        sig = ent.get("signature", {})
        if all(viol["sig"].get(k) == v for k, v in sig.items()):
            return ent
    return None


# --------------------------------------------------------------------------- running one case


def run_case_guarded(execute, case, timeout_s=120, hang_violation=False):
    """Run ``execute(case)`` under a SIGALRM wall cap.  Returns the result dict; on
    time-out returns {'timeout': True} (plus, for the in-process history machines whose
    operations take milliseconds, a 'hang' violation)."""
    def _alarm(signum, frame):
        raise OpTimeout()

    old = signal.signal(signal.SIGALRM, _alarm)
    signal.alarm(int(timeout_s))
    try:
        res = execute(case)
    except OpTimeout:
        res = {"timeout": True, "history": [], "violations": [], "stats": {}, "states": []}
        if hang_violation:
            res["timeout"] = False
            res["violations"] = [violation("hang", "run exceeded %ds wall cap" % timeout_s, {})]
    finally:
        signal.alarm(0)
        signal.signal(signal.SIGALRM, old)
    return res


# --------------------------------------------------------------------------- ddmin


def ddmin_list(items, test, budget=None):
    """Classic delta debugging on a list: returns a (1-)minimal sublist for which
    ``test(sublist)`` is still True.  ``budget`` = [remaining test calls]."""
    n = 2
    items = list(items)
    while len(items) >= 2:
        if budget is not None and budget[0] <= 0:
            break
        chunk = max(1, len(items) // n)
        subsets = [items[i : i + chunk] for i in range(0, len(items), chunk)]
        reduced = False
        for i in range(len(subsets)):
            complement = [x for j, s in enumerate(subsets) if j != i for x in s]
            if budget is not None:
                budget[0] -= 1
                if budget[0] < 0:
                    break
            if complement != items and test(complement):
                items = complement
                n = max(n - 1, 2)
                reduced = True
                break
        if not reduced:
            if n >= len(items):
                break
            n = min(len(items), n * 2)
    if len(items) == 1 and (budget is None or budget[0] > 0):
        if test([]):
            return []
    return items


# --------------------------------------------------------------------------- replay files


def write_replay(prop, case, viol, history_digest, tag):
    os.makedirs(REPLAY_DIR, exist_ok=True)
    path = os.path.join(REPLAY_DIR, "%s-%s.json" % (prop, tag))
    doc = {
        "property": prop,
        "violation_class": viol["class"],
        "violation_sig": viol["sig"],
        "violation_detail": viol["detail"],
        "history_digest": history_digest,
        "hashseed": os.environ.get("PYTHONHASHSEED", ""),
        "case": case,
    }
    with open(path, "w") as f:
        json.dump(doc, f, indent=1, sort_keys=True, default=jdefault)
    return path


def load_replay(path):
    with open(path) as f:
        return json.load(f)


# --------------------------------------------------------------------------- evidence


def write_evidence(prop, doc):
    os.makedirs(EVIDENCE_DIR, exist_ok=True)
    path = os.path.join(EVIDENCE_DIR, "%s.json" % prop)
    tmp = path + ".tmp"
    with open(tmp, "w") as f:
        json.dump(doc, f, indent=1, sort_keys=True, default=jdefault)
    os.replace(tmp, path)
    return path


class Agg(object):
    """Order-independent aggregate of per-run results (reduced in task-index order)."""

    def __init__(self):
        self.runs = 0
        self.ops = 0
        self.timeouts = 0
        self.stats = Counter()
        self.states = set()
        self.samples = []
        self.digests = []
        self.violations = []  # (case_ref, viol)

    def add(self, ref, res, keep_sample):
        self.runs += 1
        self.ops += len(res.get("history", ()))
        if res.get("timeout"):
            self.timeouts += 1
        for k, v in res.get("stats", {}).items():
            self.stats[k] += v
        for s in res.get("states", ()):
            self.states.add(tuple(s) if isinstance(s, list) else s)
        self.digests.append((ref, res.get("digest")))
        if keep_sample and res.get("history"):
            self.samples.append({"case_ref": ref, "history": res["history"][:40]})
        for v in res.get("violations", ()):
            self.violations.append((ref, v))


def scratch_base():
    """Directory under /dev/shm for everything a run writes outside /verif.  Created by the
    top-level process (which removes it at exit); forked workers and child interpreters
    started by it put their own sub-directories inside."""
    import atexit
    import shutil
    import tempfile

    base = os.environ.get("VERIF_SCRATCH")
    if base and os.path.isdir(base):
        return base
    root = "/dev/shm" if os.path.isdir("/dev/shm") else None
    if root:
        # scratch of earlier runs that were killed before their atexit handler ran
        for name in os.listdir(root):
            parts = name.split("-")
            if len(parts) >= 3 and parts[0] == "verif" and parts[1].isdigit() and not os.path.exists("/proc/%s" % parts[1]):
                shutil.rmtree(os.path.join(root, name), ignore_errors=True)
    base = tempfile.mkdtemp(prefix="verif-%d-" % os.getpid(), dir=root)
    os.environ["VERIF_SCRATCH"] = base
    owner = os.getpid()

    def _rm():
        if os.getpid() == owner:
            shutil.rmtree(base, ignore_errors=True)

    atexit.register(_rm)
    return base


def now():
    return time.time()


def fmt_exc():
    return traceback.format_exc(limit=6)
