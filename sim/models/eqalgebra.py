# -*- coding: utf-8 -*-
"""Exact algebraic reference model for C11: every live equilibrium object is an integer
vector over the base equilibria; its expected net stoichiometry and constant follow."""
from fractions import Fraction


class EqModel(object):
    def __init__(self, bases, const_kind):
        # bases: list of dict(reac={k: n}, prod={k: n}, K=<Fraction | sympy expr>)
        self.bases = bases
        self.const_kind = const_kind
        self.nb = len(bases)
        self.keys = sorted({k for b in bases for k in list(b["reac"]) + list(b["prod"])})
        self.nets = [
            {k: b["prod"].get(k, 0) - b["reac"].get(k, 0) for k in self.keys} for b in bases
        ]

    def unit(self, i):
        return tuple(1 if j == i else 0 for j in range(self.nb))

    @staticmethod
    def scale(c, n):
        return tuple(int(n) * x for x in c)

    @staticmethod
    def add(c1, c2):
        return tuple(a + b for a, b in zip(c1, c2))

    def net(self, c):
        out = {}
        for k in self.keys:
            v = sum(ci * nt[k] for ci, nt in zip(c, self.nets))
            if v != 0:
                out[k] = v
        return out

    def const(self, c):
        if self.const_kind == "symbol":
            import sympy

            r = sympy.Integer(1)
            for ci, b in zip(c, self.bases):
                r = r * b["K"] ** ci
            return r
        r = Fraction(1)
        for ci, b in zip(c, self.bases):
            r = r * Fraction(b["K"]) ** ci
        return r

    def const_equal(self, observed, c):
        """Exact comparison of an observed constant with the model's."""
        exp = self.const(c)
        if self.const_kind == "symbol":
            import sympy

            try:
                ratio = sympy.simplify(sympy.sympify(observed) / exp)
            except Exception:
                return False
            return ratio == 1
        return to_fraction(observed) == exp


def to_fraction(x):
    """Exact rational value of ints, Fractions and sympy Rationals; None for anything
    inexact (a float constant is a loss of exactness the model reports as mismatch)."""
    if isinstance(x, bool):
        return None
    if isinstance(x, int):
        return Fraction(x)
    if isinstance(x, Fraction):
        return x
    try:
        import sympy

        if isinstance(x, sympy.Rational):
            return Fraction(int(x.p), int(x.q))
    except ImportError:
        pass
    return None


def is_pos_int(v):
    if isinstance(v, bool):
        return False
    if isinstance(v, int):
        return v >= 1
    try:
        import sympy

        if isinstance(v, sympy.Integer):
            return int(v) >= 1
    except ImportError:
        pass
    return False
