# -*- coding: utf-8 -*-
"""Formula strings with ground-truth composition computed from the *derivation tree*,
independently of chempy's parser (C02 workload).

A tree node is one of
    ("el", symbol, count)
    ("grp", bracket, [nodes], mult)
and a formula is  nodes [hydrate: (n, nodes)] [charge] [phase suffix].
``render`` produces the string, ``tree_composition`` the {atomic number: count, 0: charge}
mapping by summing over the tree."""

# symbol -> atomic number for the elements used by the generator (own table; includes
# prefix-ambiguous pairs C/Co/Cu/Cs/Cl/Ca/Cr, N/Na/Ni/Ne, S/Si/Sn/Se, H/He/Hg, B/Br/Ba, F/Fe, P/Pb/Pt, O/Os, K/Kr, I/In)
ELEMENTS = {
    "H": 1, "He": 2, "B": 5, "C": 6, "N": 7, "O": 8, "F": 9, "Ne": 10, "Na": 11, "Mg": 12, "Al": 13, "Si": 14,
    "P": 15, "S": 16, "Cl": 17, "K": 19, "Ca": 20, "Cr": 24, "Mn": 25, "Fe": 26, "Co": 27, "Ni": 28, "Cu": 29,
    "Zn": 30, "Se": 34, "Br": 35, "Kr": 36, "Ag": 47, "Sn": 50, "I": 53, "Cs": 55, "Ba": 56, "Os": 76, "Pt": 78,
    "Hg": 80, "Pb": 82, "In": 49, "U": 92,
}
BRACKETS = {"(": ")", "[": "]", "{": "}"}
PHASES = ["(s)", "(l)", "(g)", "(aq)"]


def _render_nodes(nodes):
    out = []
    for n in nodes:
        if n[0] == "el":
            out.append(n[1] + (str(n[2]) if n[2] != 1 else ""))
        else:
            out.append(n[1] + _render_nodes(n[2]) + BRACKETS[n[1]] + (str(n[3]) if n[3] != 1 else ""))
    return "".join(out)


def render(tree):
    s = _render_nodes(tree["nodes"])
    for k, nodes in tree.get("adducts", ([tree["hydrate"]] if tree.get("hydrate") else [])):
        s += ".." + (str(k) if k != 1 else "") + _render_nodes(nodes)
    c = tree.get("charge", 0)
    if c:
        s += ("+" if c > 0 else "-") + (str(abs(c)) if abs(c) != 1 else "")
    s += tree.get("phase", "")
    return s


def _nodes_comp(nodes, mult, acc):
    for n in nodes:
        if n[0] == "el":
            z = ELEMENTS[n[1]]
            acc[z] = acc.get(z, 0) + mult * n[2]
        else:
            _nodes_comp(n[2], mult * n[3], acc)


def tree_composition(tree):
    acc = {}
    _nodes_comp(tree["nodes"], 1, acc)
    for k, nodes in tree.get("adducts", ([tree["hydrate"]] if tree.get("hydrate") else [])):
        _nodes_comp(nodes, k, acc)
    if tree.get("charge", 0):
        acc[0] = tree["charge"]
    return acc


def tree_for(comp, rng, elements_by_z):
    """Build a random derivation tree whose composition is exactly ``comp``
    ({atomic number: positive int, 0: charge})."""
    charge = comp.get(0, 0)
    rest = {z: n for z, n in comp.items() if z != 0 and n}
    hydrate = None
    # hydrate: pull out k*H2O
    if rest.get(1, 0) >= 2 and rest.get(8, 0) >= 1 and rng.random() < 0.65:
        kmax = min(rest[1] // 2, rest[8])
        k = rng.randint(1, kmax)
        rest[1] -= 2 * k
        rest[8] -= k
        if not any(v for z, v in rest.items()):
            rest[1] += 2 * k
            rest[8] += k
        else:
            hydrate = (k, [("el", "H", 2), ("el", "O", 1)])
    adducts = [hydrate] if hydrate else []
    # a second adduct (ammonia or more water), written before or after the first, with or without a count
    if hydrate and rng.random() < 0.8:
        if rest.get(7, 0) >= 1 and rest.get(1, 0) >= 3 and len([z for z, n in rest.items() if n]) > 2:
            k2 = rng.randint(1, min(rest[7], rest[1] // 3))
            trial = dict(rest)
            trial[7] -= k2
            trial[1] -= 3 * k2
            if any(v for v in trial.values()):
                rest = trial
                adducts.insert(rng.randint(0, 1), (k2, [("el", "N", 1), ("el", "H", 3)]))
        elif hydrate[0] >= 2:
            k1 = rng.randint(1, hydrate[0] - 1)
            adducts = [(k1, hydrate[1]), (hydrate[0] - k1, hydrate[1])]
            rng.shuffle(adducts)
    rest = {z: n for z, n in rest.items() if n}
    nodes = _nodes_for(rest, rng, elements_by_z, depth=0)
    tree = {"nodes": nodes, "charge": charge}
    if adducts:
        tree["adducts"] = adducts
    if rng.random() < 0.25:
        tree["phase"] = rng.choice(PHASES)
        # put a bare element symbol right in front of the phase suffix now and then (Cs(s), Hg(g), Na(aq) ...)
        last = [i for i, n in enumerate(nodes) if n[0] == "el" and n[2] == 1]
        if last and not adducts and not charge and rng.random() < 0.6:
            i = rng.choice(last)
            nodes.append(nodes.pop(i))
    return tree


def _nodes_for(rest, rng, elements_by_z, depth):
    rest = dict(rest)
    nodes = []
    # group extraction: (g)m with m >= 2
    if depth < 2 and len(rest) >= 1 and rng.random() < 0.45:
        m = rng.choice([2, 2, 3, 4])
        g = {}
        for z, n in rest.items():
            if n >= m and rng.random() < 0.7:
                g[z] = rng.randint(1, n // m)
        if g and sum(g.values()) >= 2:
            for z, q in g.items():
                rest[z] -= m * q
            nodes.append(("grp", rng.choice("([{") if depth == 0 else rng.choice("(["),
                          _nodes_for(g, rng, elements_by_z, depth + 1), m))
    terms = []
    for z, n in sorted(rest.items()):
        if n <= 0:
            continue
        if n >= 2 and rng.random() < 0.2:  # mention the element twice
            a = rng.randint(1, n - 1)
            terms.append(("el", elements_by_z[z], a))
            terms.append(("el", elements_by_z[z], n - a))
        else:
            terms.append(("el", elements_by_z[z], n))
    rng.shuffle(terms)
    pos = rng.randint(0, len(terms)) if nodes else 0
    out = terms[:pos] + nodes + terms[pos:]
    if not out:
        raise ValueError("empty formula")
    return out
