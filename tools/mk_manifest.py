#!/venv/bin/python
"""Regenerates /verif/MANIFEST.json (kept generated so that it is always schema-valid)."""
import json, os, sys
HERE = os.path.dirname(os.path.dirname(os.path.abspath(__file__)))

CLAIMED = {
 "C02": dict(
  level="fault_enumeration",
  technique="deterministic simulation with fault injection: in-process fake of the external CBC solver process and its MPS/solution temp files (SimCBC), every fault kind enumerated at every solver invocation of seeded answer-first workloads, exact Fraction reference model, ddmin-minimised replay",
  text="For each seeded workload (generated from its answer; ground truth by exact null space, Fourier-Motzkin cone feasibility and bounded enumeration) the fault-free run must satisfy the whole property in all three modes; then, for every solver invocation the smallest-integers / duplicate-search call makes, every fault of the SimCBC list is injected once (solution file torn at sampled or all byte offsets, every variable perturbed/dropped/scaled, equality-only vectors from the exact null space, stale or empty or missing file, rewritten status, crashed/killed/missing solver, relaxed or truncated search, ENOSPC/EIO/torn MPS, removed temp dir), some faults are injected before the first healthy solve of a problem, and calls are repeated after decoy calls with the same keys (history independence) and the safety half of the property must still hold (an answer is balanced, positive, integral, coprime, right keys, unique ray; any exception is an acceptable refusal). Enumeration is complete per (call, invocation, fault kind) within the listed kinds; workloads are sampled.",
  note="Trusted: sim/models/nullspace.py (exact Fraction algebra), sim/models/composition.py (derivation-tree compositions), the real PuLP and cbc binary. Not injected: a solver that never terminates. Under faults minimality is not demanded for multi-dimensional cones. Known finding C02-parametric-infeasible-cone is listed, not alarmed.",
  design_ref="DESIGN.md section 3.1"),
 "C11": dict(
  level="exploration",
  technique="deterministic simulation: seeded operation histories on persistent Equilibrium objects checked step-by-step against an exact algebraic reference model (refinement), refused-operation faults, hash-seed configurations, ddmin-minimised replay",
  text="Seeded search over operation histories (scale, negate, add, subtract, compound, eliminate, as_reactions with and without units, the user assigning a new constant or None to a live object, subscript reads, unrelated constructions with dont_check; 3-25 steps, 45 in the thorough tier, over a growing pool of live objects). After every step the new object is compared with an exact model (integer vector over the bases for the net stoichiometry, netted form, positivity; the expected constant carried explicitly per object) and every other live object with its snapshot (aliasing/mutation); a fixed canary before and after each history detects process-global state left behind. Sampling, not proof: a clean batch is evidence that no history within the bounds (|multiplier vector| <= 12, <= 5 bases, <= 10 species) breaks the property.",
  note="Trusted: the reference model sim/models/eqalgebra.py (40 lines of exact Fraction/sympy arithmetic), Python's Fraction and sympy.simplify for symbolic constants. Bases carry no inactive parts (excluded by the property). The value of Equilibrium.cancel is not asserted.",
  design_ref="DESIGN.md section 3.3"),
}
CLAIMED["C15"] = dict(
  level="exploration",
  technique="deterministic simulation: seeded operation histories on mutable, object-sharing ReactionSystem instances with fault injection into user callbacks and reaction iterables (k-th call raises, non-Reaction item), refinement against a graph reference model after every step, hash-seed configurations, ddmin-minimised replay",
  text="Seeded search over histories (construct in every documented way incl. on another system's substances mapping, +, +=, subset, split, n-ary concatenate, sort_substances_inplace, registering substances, interleaved with categorize/identify_equilibria/participation/effect/array/dict/index/varied/upper-bound queries with user min_ callbacks; 3-20 steps, 36 in the thorough tier) on a pool of live systems that share Reaction and Substance objects (and sometimes the substances mapping itself). After every step every live system is compared with the model (ordered reaction identities and substance keys), so a leak into a sibling, a partially applied failed operation or a mutated caller-owned list is caught; every query result is recomputed from raw stoichiometry by definition (union-find components, category definitions, exact-Fraction bounds with alternative states of equal element totals). Sampling, not proof.",
  note="Trusted: sim/models/rsysgraph.py. The first argument of concatenate is retired (its mutation is unspecified). identify_equilibria asserted exactly only when reverse partners are unique. Random reactions are not element-balanced: formula-mode systems are built with dont_check={'balance'} or checks=().",
  design_ref="DESIGN.md section 3.4")

CLAIMED["C08"] = dict(
  level="fault_enumeration",
  technique="deterministic simulation with fault injection: in-process fake of the delegated non-linear solver (SimSolver under pyneqsys' own backend dispatch), every fault kind enumerated at every solver invocation of seeded equilibrium systems on re-used solver objects, defining-equation oracle by own arithmetic, fixed liveness panel, ddmin-minimised replay",
  text="Seeded systems (acid/base/complexation pool, constants jittered over decades, starts over six decades incl. exact zeros; single-salt precipitation under/exactly/over-saturated) are solved by root/roots/solve/solve_equilibrium under each chain. Fault-free, every point flagged success-and-sane must satisfy non-negativity, element/charge conservation (1e-6), Q = K (1e-5 in ln) and the solid clauses; then for every solver invocation of that call every SimSolver fault (early stop with budgets, NaN/inf/garbage iterates reported as failure, failure reported at the root, exceptions raised inside the solver) is injected once on the same solver objects: soundness must still hold, a failed last invocation must not be reported as success, and a fault-free call afterwards must reproduce the pre-fault result (no sticky state); histories also change constants on live objects, fix phase assumptions (static conditions) and use simulator-owned activity callbacks. Liveness (>= 19/20) is judged on a fixed seed-independent panel in the well-conditioned sub-domain for both default entry points; single-equilibrium answers are compared with the bracketing scalar solver.",
  note="Trusted: sim/models/equilibrium.py (compositions, constants, oracle), the real pyneqsys/scipy. Not injected: a Byzantine solver (success=True with an altered iterate). Two known findings are listed, not alarmed: least-squares convergence reported as success (sig own_residual_large), linear formulations started from an exact zero. Violations with those signatures are the only ones suppressed.",
  design_ref="DESIGN.md section 3.2")

PENDING = {}

NA = {
 "C01": "formula parsing is a pure function of the input string; the only shared object (memoised pyparsing grammar) is never written after construction and chempy has no second task, clock or I/O on this path: nothing to schedule or fault (parser misreads do surface through C02's independent composition oracle)",
 "C03": "mass-action rate evaluation is pure arithmetic on its arguments; no state survives a call, no schedule/clock/fault dimension",
 "C04": "ODE-system generation is a deterministic symbolic construction; deciding an exact symbolic identity per generated program is translation validation, a different technique; no fault or history dimension",
 "C05": "a constructor predicate, a linear-algebra identity and a delegated integrator's tolerance; no chempy code runs on any failure path, nothing to inject faults into",
 "C06": "numerical accuracy of a deterministic delegated integrator (pyodesys/scipy); chempy only formulates the right-hand side and passes info through, so integrator faults would test the dependency, not chempy",
 "C07": "pure evaluation of residual expressions (wrong residuals are nevertheless caught by C08 when they change what the solver returns)",
 "C09": "pure unit algebra; the registry is only written at import time; no schedule/clock/fault dimension",
 "C10": "a metamorphic relation over configurations of a pure construction; no fault or history dimension",
 "C12": "string -> object -> string round trip, a pure function of the input",
 "C13": "regex substitution on the argument, pure",
 "C14": "table lookup and a weighted sum, pure",
 "C16": "pure evaluation; backends are configurations of a pure function, not failing parties",
 "C17": "symbolic identities of closed-form expressions, pure",
 "C18": "pure formulas; whether warnings.warn is called is a function of the argument, what Python then shows depends on the user's filter, not on chempy",
 "C19": "pure formulas over documented ranges",
 "C20": "string formatting of the argument, pure",
}

def main():
    checks = []
    for pid in sorted(CLAIMED):
        c = CLAIMED[pid]
        checks.append({
            "property_id": pid,
            "quick_cmd": "./check %s --tier quick" % pid,
            "thorough_cmd": "./check %s --tier thorough" % pid,
            "evidence_file": "evidence/%s.json" % pid,
            "replay_cmd_template": "./check %s --replay {path}" % pid,
            "engine": "sim",
            "level_claimed": {"category": c["level"], "text": c["text"], "design_ref": c["design_ref"]},
            "level_note": c["note"],
            "technique": c["technique"],
        })
    na = [{"property_id": k, "reason": v} for k, v in sorted(NA.items())]
    na += [{"property_id": k, "reason": v} for k, v in sorted(PENDING.items())]
    m = {
        "version": 1,
        "setup_cmd": "./setup.sh",
        "hooks": {
            "guard": "CHEMPY_VERIF",
            "enable": "none needed: every seam is one the code (or its dependencies' documented dispatch) already has; checks import chempy from /repo's working tree (pure Python, PYTHONPATH=/repo), nothing is built",
            "baseline_off_cmd": "cd /repo && /venv/bin/python -m pytest -ra -q -p no:cacheprovider --timeout=900 --continue-on-collection-errors",
            "source_commits": [],
            "add_only": True,
        },
        "engines": [{
            "name": "sim",
            "path": "sim/",
            "serves_properties": sorted(CLAIMED),
            "kind_free_text": "single-process deterministic simulator written for this task: seeded workload/fault/swarm streams, in-process fakes for the external solver process, its temp files and the delegated non-linear solver, recorded histories checked against executable reference models, delta-debugging minimiser, fresh-interpreter replay",
        }],
        "checks": checks,
        "not_applicable": na,
        "notes": "Technique family: deterministic simulation with fault injection. 16 of 20 properties are pure functions of their input (no schedule, clock, I/O, fault or history) and are listed under not_applicable with the reason (DESIGN.md section 4). Exit codes of ./check: 0 held, 1 VIOLATION, 2 HARNESS-ERROR (never a verdict). Genuine defects found and repaired are listed in known_findings.json ('fixed').",
    }
    with open(os.path.join(HERE, "MANIFEST.json"), "w") as f:
        json.dump(m, f, indent=1)
    try:
        import jsonschema
        jsonschema.validate(m, json.load(open("/root/.vp/MANIFEST.schema.json")))
        print("MANIFEST.json valid; claimed:", sorted(CLAIMED))
    except ImportError:
        print("MANIFEST.json written (jsonschema not available to validate)")

if __name__ == "__main__":
    main()
