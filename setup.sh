#!/bin/sh
# Offline setup: nothing is fetched or built (pure Python); only verifies the toolchain the
# checks need: /venv python, chempy importable from /repo, PuLP + bundled cbc, pyneqsys, scipy, sympy.
set -e
cd "$(dirname "$0")"
mkdir -p evidence replays
PYTHONPATH=/repo:/verif PYTHONHASHSEED=0 /venv/bin/python - <<'PY'
import os, sys
import chempy, pulp, pyneqsys, scipy, sympy, numpy
assert os.path.realpath(chempy.__file__).startswith(os.path.realpath('/repo') + os.sep), chempy.__file__
p = pulp.LpProblem('t', pulp.LpMinimize)
x = pulp.LpVariable('x', lowBound=1, cat='Integer')
p += x
p += x >= 2
os.environ.setdefault('TMPDIR', '/dev/shm')
import warnings
with warnings.catch_warnings():
    warnings.simplefilter('ignore')
    p.solve(pulp.PULP_CBC_CMD(msg=False))
assert pulp.value(x) == 2.0
print('setup ok: chempy', chempy.__version__, 'pulp', pulp.__version__, 'pyneqsys', pyneqsys.__version__)
PY
