# -*- coding: utf-8 -*-
"""SimSolver: the simulator's stand-in for the delegated non-linear solver.

pyneqsys chooses the backend with ``getattr(self, '_solve_' + name)`` where name comes from
``solver=``, ``attached_solver=`` or ``$PYNEQSYS_SOLVER``.  Registering
``NeqSys._solve_verifsim`` and exporting ``PYNEQSYS_SOLVER=verifsim`` therefore puts the
simulator under *every* solver invocation chempy causes (root, roots, solve, _solve) without
touching chempy.  With an empty plan the real ``_solve_scipy`` runs unchanged.

Fault kinds for the n-th solver invocation of the current operation:

  early_stop {k}     the real solver is given an evaluation budget of k and reports its own failure
  fail_nan           reports failure with a NaN iterate (diverged Newton iteration)
  fail_inf           reports failure with a +-inf iterate
  fail_garbage {s}   real solve, then failure reported with a perturbed / sign-flipped iterate
  fail_at_root       real solve, then failure reported although the iterate is the root (pessimistic solver)
  raise_fpe / raise_zerodiv / raise_linalg   the residual evaluation raises inside the solver

Not in the fault model: success=True with an altered iterate (Byzantine solver).
"""
from __future__ import annotations

import os

import numpy as np

FAULT_KINDS = ["early_stop", "fail_nan", "fail_inf", "fail_garbage", "fail_at_root", "raise_fpe", "raise_zerodiv", "raise_linalg"]
FAILURE_KINDS = ("fail_nan", "fail_inf", "fail_garbage", "fail_at_root")


class World(object):
    def __init__(self):
        self.reset({})

    def reset(self, plan):
        self.plan = {int(k): v for k, v in plan.items()}
        self.n = 0
        self.log = []  # per invocation: dict(inv, fault, fired, success, x0_finite, nx, nf)
        self.fired = []


WORLD = World()


class _Result(dict):
    """Minimal stand-in for scipy's OptimizeResult."""

    __getattr__ = dict.get


def _solve_verifsim(self, intern_x0, tol=1e-8, method=None, **kwargs):
    idx = WORLD.n
    WORLD.n += 1
    fault = WORLD.plan.get(idx) or {}
    kind = fault.get("kind")
    x0 = np.asarray(intern_x0, dtype=float)
    rec = {"inv": idx, "fault": kind, "fired": False, "nx": int(self.nx), "nf": int(self.nf),
           "x0_finite": bool(np.all(np.isfinite(x0)))}
    WORLD.log.append(rec)

    def fired():
        rec["fired"] = True
        WORLD.fired.append(kind)

    if kind in ("raise_fpe", "raise_zerodiv", "raise_linalg"):
        fired()
        if kind == "raise_fpe":
            raise FloatingPointError("overflow encountered in exp (injected)")
        if kind == "raise_zerodiv":
            raise ZeroDivisionError("float division by zero (injected)")
        raise np.linalg.LinAlgError("singular matrix (injected)")
    if kind in ("fail_nan", "fail_inf"):
        fired()
        x = np.full(x0.shape, np.nan if kind == "fail_nan" else np.inf)
        if kind == "fail_inf" and x.size > 1:
            x[::2] *= -1
        rec["success"] = False
        return _Result(x=x, success=False, nfev=1, njev=0, status=-1, message="injected: iteration diverged")
    if kind == "early_stop":
        m = method
        if m is None:
            m = "lm" if self.nf > self.nx else "hybr"
        opts = dict(kwargs.get("options") or {})
        k = max(1, int(fault.get("k", 1)))
        if m == "lm":
            opts["maxiter"] = k
        else:
            opts["maxfev"] = k
        kw = dict(kwargs)
        kw["options"] = opts
        res = self._solve_scipy(intern_x0, tol=tol, method=method, **kw)
        if not res["success"]:
            fired()
        rec["success"] = bool(res["success"])
        return res
    res = self._solve_scipy(intern_x0, tol=tol, method=method, **kwargs)
    if kind == "fail_at_root":
        fired()
        res = _Result(res)
        res["success"] = False
    elif kind == "fail_garbage":
        fired()
        res = _Result(res)
        x = np.array(res["x"], dtype=float)
        s = float(fault.get("s", 3.0))
        pert = np.array([s if i % 2 == 0 else -1.0 / s for i in range(x.size)])
        res["x"] = x * pert + (0.5 if fault.get("shift") else 0.0)
        res["success"] = False
    rec["success"] = bool(res["success"])
    return res


def install():
    import pyneqsys.core as core_

    if getattr(core_.NeqSys, "_solve_verifsim", None) is not _solve_verifsim:
        core_.NeqSys._solve_verifsim = _solve_verifsim
    os.environ["PYNEQSYS_SOLVER"] = "verifsim"
