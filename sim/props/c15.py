# -*- coding: utf-8 -*-
"""C15 - structural queries on a reaction system match its reaction graph.

Seeded operation histories over mutable ``chempy.ReactionSystem`` objects that share
Reaction/Substance objects, with failing user callbacks (predicate, substance factory,
reaction iterables) and refused operations as injected faults.  After every operation
every live system is compared with the graph reference model (sim/models/rsysgraph.py).
See DESIGN.md section 3.4.
"""
from __future__ import annotations

from collections import OrderedDict
from fractions import Fraction

from .. import core
from ..models import rsysgraph as M

PROPERTY = "C15"
LEVEL = "exploration"
QUICK_RUNS = 16000
THOROUGH_BUDGET_S = 1500
THOROUGH_BATCH = 6000
CROSS_RUNS_QUICK = 100
CROSS_RUNS_THOROUGH = 400
RUN_TIMEOUT_S = 60
TIMEOUT_IS_VIOLATION = True

ALL_CHECKS = ("balance", "substance_keys", "duplicate", "duplicate_names")
KEYS = ["A", "B", "C", "D", "E", "F", "G", "H", "I", "J", "K", "L"]
ELEMENTS = [1, 6, 7, 8, 17]


class SimFault(RuntimeError):
    """Raised by simulator-owned callbacks/iterables at their k-th use."""


# ----------------------------------------------------------------------------- generation


def _gen_reaction(rw, keys, maxcoef, p_inact, p_cat, eq):
    for _ in range(100):
        k = rw.randint(2, min(4, len(keys)))
        sp = rw.sample(keys, k)
        nreac = rw.randint(1, k - 1)
        reac = {s: rw.randint(1, maxcoef) for s in sp[:nreac]}
        prod = {s: rw.randint(1, maxcoef) for s in sp[nreac:]}
        ir, ip = {}, {}
        if rw.random() < p_cat:
            c = rw.choice(keys)
            m = rw.randint(1, 2)
            reac[c] = reac.get(c, 0) + m
            prod[c] = prod.get(c, 0) + m
        if rw.random() < p_inact:
            c = rw.choice(keys)
            (ir if rw.random() < 0.5 else ip)[c] = rw.randint(1, 2)
        r = {"reac": reac, "prod": prod, "inact_reac": ir, "inact_prod": ip}
        allk = set(reac) | set(prod) | set(ir) | set(ip)
        if any(prod.get(x, 0) + ip.get(x, 0) - reac.get(x, 0) - ir.get(x, 0) for x in allk):
            return r
    raise core.HarnessError("could not generate a reaction")


def gen_case(seed, run, tier):
    rw = core.stream(seed, "c15/workload", run)
    rs = core.stream(seed, "c15/swarm", run)
    rf = core.stream(seed, "c15/faults", run)
    nkeys = rs.randint(4, 12)
    keys = sorted(rs.sample(KEYS, nkeys))
    formula_mode = rs.random() < 0.45
    maxcoef = rs.choice([1, 2, 3])
    p_inact = rs.choice([0.0, 0.15, 0.3])
    p_cat = rs.choice([0.0, 0.15, 0.3])
    deep = tier == "thorough"
    nbank = rs.randint(4, 20 if deep else 14)
    fault_rate = rs.choice([0.0, 0.05, 0.15, 0.3])
    n_islands = rs.choice([1, 1, 2, 3, 4])  # partition keys so that several components exist
    rs.shuffle(keys_shuffled := list(keys))
    islands = [sorted(keys_shuffled[i::n_islands]) for i in range(n_islands)]
    islands = [isl for isl in islands if len(isl) >= 2] or [keys]
    bridge_p = rs.choice([0.0, 0.1, 0.3])
    comps = None
    relations = []
    if formula_mode:
        comps = {}
        for k in keys:
            if comps and rw.random() < 0.45 and len(comps) >= 2:
                a, b = rw.sample(sorted(comps), 2)
                ma, mb = rw.randint(1, 2), rw.randint(1, 2)
                c = {}
                for src, m in ((a, ma), (b, mb)):
                    for e, n in comps[src].items():
                        c[e] = c.get(e, 0) + m * n
                c = {e: n for e, n in c.items() if n != 0 or e != 0}
                if 0 in c and c[0] == 0:
                    del c[0]
                comps[k] = c
                relations.append({a: -ma, b: -mb, k: 1})
            else:
                els = rw.sample(ELEMENTS, rw.randint(1, 2))
                c = {e: rw.randint(1, 3) for e in els}
                if rw.random() < 0.3:
                    c[0] = rw.choice([-2, -1, 1, 2])
                comps[k] = c
    bank = []
    names_used = 0
    chainy = rs.random() < 0.18 and len(islands) >= 3 and not formula_mode
    if chainy:
        # seed reaction inside every island first, then reactions that each join exactly two islands, in random
        # order: the connected components only emerge through late reactions (transitive fusion of groups)
        rs.shuffle(islands)
        for isl in islands:
            r = _gen_reaction(rw, isl, 1, 0.0, 0.0, False)
            r.update(eq=False, param=rw.choice([1.0, 2.5]), name=None)
            bank.append(r)
        pairs = [(a, b) for a in range(len(islands)) for b in range(a + 1, len(islands))]
        rw.shuffle(pairs)
        for a, b in pairs[: rw.randint(1, len(islands))]:
            ka, kb = rw.choice(islands[a]), rw.choice(islands[b])
            extra = "Z%d%d" % (a, b)
            bank.append({"reac": {ka: 1, kb: 1}, "prod": {extra: 1} if rw.random() < 0.5 else {rw.choice(islands[b]): 2},
                         "inact_reac": {}, "inact_prod": {}, "param": rw.choice([1.0, 4.0]), "name": None, "eq": False})
        bank = [r for r in bank if any(r["prod"].get(x, 0) - r["reac"].get(x, 0) for x in set(r["reac"]) | set(r["prod"]))]
        keys = sorted(set(keys) | {k for r in bank for k in list(r["reac"]) + list(r["prod"])})
        nbank = 0
    for i in range(nbank):
        roll = rw.random()
        if bank and roll < 0.18:  # exact reverse of an earlier reaction that has no reverse yet
            cand = [j for j, r in enumerate(bank) if not r.get("_has_rev") and not r.get("_is_rev")]
            if cand:
                j = rw.choice(cand)
                src = bank[j]
                src["_has_rev"] = True
                bank.append({"reac": dict(src["prod"]), "prod": dict(src["reac"]), "inact_reac": dict(src["inact_prod"]),
                             "inact_prod": dict(src["inact_reac"]), "param": rw.choice([1.5, 2.0, 7.0]), "name": None,
                             "eq": False, "_is_rev": True})
                continue
        if bank and roll < 0.24:  # twin: same stoichiometry, maybe same parameter (a true duplicate)
            src = rw.choice(bank)
            if not src.get("eq"):
                bank.append({"reac": dict(src["reac"]), "prod": dict(src["prod"]), "inact_reac": dict(src["inact_reac"]),
                             "inact_prod": dict(src["inact_prod"]),
                             "param": src["param"] if rw.random() < 0.5 else 11.0, "name": None, "eq": False,
                             "_is_rev": src.get("_is_rev", False), "_has_rev": True})
                src["_has_rev"] = True
                continue
        eq = rw.random() < 0.2
        pool = rw.choice(islands) if rw.random() >= bridge_p else keys
        r = _gen_reaction(rw, pool, maxcoef, p_inact, p_cat, eq)
        r["eq"] = eq
        r["param"] = [rw.choice([1.0, 2.0]), rw.choice([3.0, 5.0])] if eq else rw.choice([1.0, 2.5, 4.0, 42.0])
        r["name"] = None
        if rw.random() < 0.25:
            r["name"] = "R%d" % (names_used if rw.random() < 0.9 else max(0, names_used - 1))
            names_used += 1
        bank.append(r)
    if rs.random() < 0.1 and not chainy and bank:
        victim = rw.choice([r for r in bank if not r.get("eq")] or bank[:1])
        if not victim.get("eq"):
            k = rw.choice(sorted(victim["prod"]))
            victim["prod"][k] = -victim["prod"][k]
            victim["neg"] = True
            if not any(victim["prod"].get(x, 0) + victim["inact_prod"].get(x, 0) - victim["reac"].get(x, 0) - victim["inact_reac"].get(x, 0)
                       for x in set(victim["reac"]) | set(victim["prod"]) | set(victim["inact_reac"]) | set(victim["inact_prod"])):
                victim["prod"][k] = -victim["prod"][k]
                victim.pop("neg")
    for r in bank:
        r.pop("_has_rev", None)
        r.pop("_is_rev", None)
    mbank = M.Bank(bank)

    # ---- operations, proposed against the model only
    nops = rs.randint(3, 36 if deep else 20)
    enabled_q = [q for q in ("categorize", "equilibria", "participation", "effect", "array", "index", "varied", "eq")
                 if rs.random() < 0.7]
    if formula_mode:
        enabled_q.append("bounds")
    enabled_m = [m for m in ("add", "add_list", "iadd", "iadd_list", "subset", "split", "concat", "sort_inplace", "register")
                 if rs.random() < 0.75] or ["add", "split"]
    live = OrderedDict()  # id -> (rx list, subs list) as the generator expects it (advisory only)
    ops = []

    def new_construct(oid):
        n = rw.randint(0 if rw.random() < 0.05 else 1, min(len(bank), 8))
        rx = rw.sample(range(len(bank)), n)
        if rw.random() < 0.7:
            rx = sorted(rx)
        if chainy and rw.random() < 0.8:
            rx = list(range(len(bank)))
            if rw.random() < 0.3:
                rx = rx[: rw.randint(2, len(rx))]
        used = sorted(set().union(*[mbank.keys(i) for i in rx])) if rx else []
        extra = [k for k in keys if k not in used and rw.random() < 0.25]
        kind = rw.choice(["none", "str", "list", "odict", "set", "objs", "dict"] if not formula_mode else ["odict", "objs", "list", "set", "str", "dict"])
        ks = used + extra
        if kind in ("list", "odict", "objs", "str") and rw.random() < 0.6:
            rw.shuffle(ks)
        op = {"id": oid, "op": "construct", "rx": rx, "subs": {"kind": kind, "keys": ks},
              "sort": rw.choice([None, None, None, True, False]),
              "checks": rw.choice(["default", "default", "default", "none", "nodup", "nokeys"]) if not formula_mode else rw.choice(["nobalance", "nobalance", "none", "nodup", "nokeys"]),
              "missing": False, "fault": None}
        if kind == "none":
            op["subs"]["keys"] = []
        if kind in ("none", "set") and op["sort"] is False:
            op["sort"] = None  # unsorted iteration of a set is unspecified (hash order)
        if kind in ("str", "list") and len(ks) < 2:
            op["subs"]["kind"] = "odict"
        if live and rw.random() < 0.12:
            # build the new system on the very substances mapping of an existing one (as chempy itself does in
            # categorize_substances): the two systems then share it
            op["share_with"] = rw.choice(list(live))
            op["fault"] = None
        if rf.random() < fault_rate:
            f = rf.choice(["factory_raise", "iter_raise", "unknown_key", "junk"])
            if f == "factory_raise" and kind in ("str", "list", "set") and ks:
                op["fault"] = {"kind": f, "k": rf.randint(1, len(ks))}
            elif f == "iter_raise" and rx:
                op["fault"] = {"kind": f, "k": rf.randint(0, len(rx) - 1)}
            elif f == "unknown_key" and used and kind != "none":
                drop = rf.choice(used)
                op["subs"]["keys"] = [k for k in op["subs"]["keys"] if k != drop]
                if rf.random() < 0.4 and kind in ("list", "str") and len(op["subs"]["keys"]) >= 2:
                    op["missing"] = True
                    op["sort"] = True
        return op

    oid = 0
    for _ in range(rw.randint(1, 3)):
        ops.append(new_construct(oid))
        live["s%d" % oid] = True
        oid += 1
    while len(ops) < nops:
        ids = list(live)
        roll = rw.random()
        a = rw.choice(ids)
        b = rw.choice(ids)
        if roll < 0.12:
            ops.append(new_construct(oid))
            live["s%d" % oid] = True
        elif roll < 0.55:
            kind = rw.choice(enabled_m)
            op = {"id": oid, "op": kind, "a": a}
            if kind in ("add", "iadd", "concat"):
                op["b"] = b
                if kind in ("iadd", "concat") and a == b:
                    oid += 1
                    continue
                if kind == "concat":
                    op["more"] = [x for x in rw.sample(ids, min(len(ids), rw.choice([0, 0, 1, 2]))) if x != a]
                if kind == "add":
                    live["s%d" % oid] = True
                if kind == "concat":
                    live["s%d.0" % oid] = True
                    live["s%d.1" % oid] = True
                    live.pop(a, None)
            elif kind in ("add_list", "iadd_list"):
                op["rx"] = rw.sample(range(len(bank)), rw.randint(0, min(3, len(bank))))
                op["as_iter"] = rw.random() < 0.4
                op["junk_at"] = None
                op["iter_raise"] = None
                if rf.random() < fault_rate:
                    if rf.random() < 0.5:
                        op["junk_at"] = rf.randint(0, len(op["rx"]))
                    else:
                        op["as_iter"] = True
                        op["iter_raise"] = rf.randint(0, len(op["rx"]))
                if kind == "add_list":
                    live["s%d" % oid] = True
            elif kind == "sort_inplace":
                op["reverse"] = rw.random() < 0.4
            elif kind == "register":
                op["key"] = rw.choice(keys + ["Xx", "Yy"])
            elif kind == "subset":
                op["bits"] = [rw.randint(0, 1) for _ in bank]
                op["raise_at"] = rf.randint(1, 6) if rf.random() < fault_rate else None
                op["checks"] = "none"
                live["s%d.0" % oid] = True
                live["s%d.1" % oid] = True
            elif kind == "split":
                op["checks"] = rw.choice(["default", "none", "none"]) if not formula_mode else rw.choice(["nobalance", "none"])
                for j in range(4):
                    live["s%d.%d" % (oid, j)] = True
            ops.append(op)
        else:
            if not enabled_q:
                oid += 1
                continue
            kind = rw.choice(enabled_q)
            op = {"id": oid, "op": kind, "a": a}
            if kind == "categorize":
                op["checks"] = rw.choice(["default", "none", "none"]) if not formula_mode else rw.choice(["nobalance", "none"])
                op["sort_kw"] = rw.random() < 0.3
            elif kind in ("participation", "effect", "index"):
                op["key"] = rw.choice(keys + ["Zz"])
            elif kind == "array":
                op["variant"] = rw.choice(["dict", "dict", "list", "short", "missing_key", "unk_key", "unk_key_sparse", "roundtrip"])
                op["vals"] = [rw.randint(0, 40) for _ in keys]
            elif kind == "varied":
                op["vals"] = [rw.randint(0, 40) for _ in keys]
                vk = rw.sample(keys, rw.randint(0, 2))
                op["varied"] = {k: [rw.randint(1, 9) for _ in range(rw.randint(1, 3))] for k in vk}
            elif kind == "bounds":
                op["c0"] = [rw.choice([0, 0, 1, 2, 3, 5, 8, 20]) * rw.choice([1, 1, 2, 4, 8]) for _ in keys]  # eighths
                op["moves"] = [{"rel": rw.randrange(len(relations)), "t": rw.randint(0, 8), "dir": rw.choice([-1, 1])}
                               for _ in range(rw.randint(0, 6))] if relations else []
                op["min_cb"] = rw.choice([None, None, "numpy", "twopass", "strict"])
                op["skip_keys"] = rw.choice([None, None, "empty", "zero"])
            elif kind == "eq":
                op["b"] = b
            ops.append(op)
        oid += 1
    return {"property": PROPERTY, "config": {"formula_mode": formula_mode}, "keys": keys,
            "comps": ({k: {str(e): n for e, n in c.items()} for k, c in comps.items()} if comps else None),
            "relations": relations, "bank": bank, "ops": ops}


# ----------------------------------------------------------------------------- execution


def _checks_kwargs(name):
    if name == "default":
        return {}
    if name == "nobalance":
        return {"dont_check": {"balance"}}
    if name == "nodup":
        return {"dont_check": {"duplicate", "balance"}}
    if name == "nokeys":
        return {"dont_check": {"substance_keys", "balance"}}
    return {"checks": ()}


def _checks_set(name):
    if name == "default":
        return set(ALL_CHECKS)
    if name == "nobalance":
        return set(ALL_CHECKS) - {"balance"}
    if name == "nodup":
        return set(ALL_CHECKS) - {"balance", "duplicate"}
    if name == "nokeys":
        return set(ALL_CHECKS) - {"balance", "substance_keys"}
    return set()


def _canary():
    """Fixed mini-scenario whose outcome must be the same before and after any history: the constructor's admission
    checks on fresh objects.  A difference means the history left process-global state behind."""
    from chempy import Reaction, ReactionSystem

    r1, r2 = Reaction({"A": 1}, {"B": 1}, 1.0, name="n1"), Reaction({"A": 1}, {"B": 1}, 1.0)
    r3 = Reaction({"B": 1}, {"C": 1}, 2.0, name="n1")
    out = []
    for rx, subs in (([r1], "A B"), ([r1, r2], "A B"), ([r1], "A Q"), ([r1, r3], "A B C")):
        try:
            ReactionSystem(rx, subs)
            out.append("ok")
        except Exception as ex:
            out.append(core.exc_tag(ex))
    try:
        Reaction({"A": 0}, {"B": 0}, 1.0)
        out.append("ok")
    except Exception as ex:
        out.append(core.exc_tag(ex))
    return out


def execute(case):
    import numpy as np
    from chempy import Reaction, Equilibrium, ReactionSystem, Substance

    canary_before = _canary()

    keys = case["keys"]
    comps = None
    if case.get("comps"):
        comps = {k: {int(e): n for e, n in c.items()} for k, c in case["comps"].items()}
    bankspec = case["bank"]
    mb = M.Bank(bankspec)
    hist, viols, stats, states = [], [], {}, set()

    def bump(k, n=1):
        stats[k] = stats.get(k, 0) + n

    # real reaction objects, shared by every system of the run
    robjs = []
    for r in bankspec:
        cls = Equilibrium if r.get("eq") else Reaction
        p = tuple(r["param"]) if isinstance(r["param"], list) else r["param"]
        extra_kw = {"dont_check": {"all_positive"}} if r.get("neg") else {}
        robjs.append(cls(dict(r["reac"]), dict(r["prod"]), p, inact_reac=dict(r["inact_reac"]) or None,
                         inact_prod=dict(r["inact_prod"]) or None, name=r.get("name"), **extra_kw))
    rid = {id(o): i for i, o in enumerate(robjs)}

    def rsnap(o):
        return (tuple(o.reac.items()), tuple(o.prod.items()), tuple(o.inact_reac.items()), tuple(o.inact_prod.items()),
                o.param, o.name)

    rsnaps = [rsnap(o) for o in robjs]

    def mk_substance(k):
        if comps is not None and k in comps:
            return Substance(k, composition=dict(comps[k]))
        if comps is not None:
            return Substance(k, composition={})
        return Substance(k)

    live = OrderedDict()  # id -> [obj, rx(list of bank idx), subs(list of keys)]
    caller_lists = []  # (list object handed to chempy, its content when handed over)

    def observe(obj):
        rx = []
        for r in obj.rxns:
            i = rid.get(id(r))
            if i is None:
                i = next((j for j, o in enumerate(robjs) if o == r), -1)
            rx.append(i)
        return rx, list(obj.substances.keys())

    seen_ids = set()
    ORDER_FREE = ("add", "add_list", "subset", "split", "concat", "iadd", "iadd_list")

    def check_all(idx, opname, failed=False, touched=()):
        """Every live system against its model.  Systems that existed before the operation and were not its in-place
        target must be exactly as they were (order included).  For systems an operation has just created or grown
        (sums, subsets, parts) the statement fixes WHICH reactions and substances they hold, not their order: those are
        compared as multiset / set and the observed order is adopted as the system's order from then on."""
        ok = True
        for sid, (obj, rx, subs) in live.items():
            orx, osubs = observe(obj)
            free = (not failed) and opname.split(":")[0] in ORDER_FREE and (sid not in seen_ids or sid in touched)
            if free and (orx != rx or osubs != subs) and sorted(orx) == sorted(rx) and sorted(osubs) == sorted(subs):
                live[sid][1] = orx
                live[sid][2][:] = osubs
                bump("probe:order_adopted_from_implementation")
                continue
            if orx != rx or osubs != subs:
                ok = False
                klass = "failed_op_mutated" if failed else "live_system_diverged"
                viols.append(core.violation(klass, "%s after %s: reactions %s substances %s, model says %s %s" % (
                    sid, opname, orx, osubs, rx, subs), {"op": opname}, idx))
                live[sid][1] = orx  # resynchronise: report once
                live[sid][2][:] = osubs
        for n, (lst, snap) in enumerate(caller_lists):
            if [id(x) for x in lst] != snap:
                ok = False
                viols.append(core.violation("caller_list_mutated", "a list the caller passed in was changed by %s" % opname, {"op": opname}, idx))
                caller_lists[n] = (lst, [id(x) for x in lst])
        for i, o in enumerate(robjs):
            if rsnap(o) != rsnaps[i]:
                ok = False
                viols.append(core.violation("reaction_mutated", "bank reaction %d changed by %s" % (i, opname), {"op": opname}, idx))
                rsnaps[i] = rsnap(o)
        seen_ids.clear()
        seen_ids.update(live.keys())
        return ok

    def dangling(rx, subs):
        s = set(subs)
        return any(not mb.keys(i) <= s for i in rx)

    class Pred(object):
        def __init__(self, bits, raise_at):
            self.bits, self.raise_at, self.calls = bits, raise_at, 0

        def __call__(self, r):
            self.calls += 1
            if self.raise_at is not None and self.calls == self.raise_at:
                bump("fault_fired:pred_raise")
                raise SimFault("pred")
            return bool(self.bits[rid[id(r)]])

    class Factory(object):
        def __init__(self, raise_at):
            self.raise_at, self.calls = raise_at, 0

        def __call__(self, k):
            self.calls += 1
            if self.raise_at is not None and self.calls == self.raise_at:
                bump("fault_fired:factory_raise")
                raise SimFault("factory")
            return mk_substance(k)

    def rx_iter(rx, raise_at, junk_at):
        for pos, i in enumerate(rx):
            if raise_at is not None and pos == raise_at:
                bump("fault_fired:iter_raise")
                raise SimFault("iter")
            if junk_at is not None and pos == junk_at:
                bump("fault_fired:junk_item")
                yield "not-a-reaction"
            yield robjs[i]
        if raise_at is not None and raise_at >= len(rx):
            bump("fault_fired:iter_raise")
            raise SimFault("iter")
        if junk_at is not None and junk_at >= len(rx):
            bump("fault_fired:junk_item")
            yield 42

    def refused(rec, idx, kind, ex, expected, sig_extra=None):
        """An operation raised.  ``expected``: True (model predicts refusal), False (model says the
        operation is valid) or None (tolerated either way)."""
        tag = core.exc_tag(ex)
        rec["outcome"] = "raise:" + tag
        bump("refused")
        states.add((kind, "raise", tag, bool(expected)))
        if expected is False:
            sig = {"op": kind, "exc": tag}
            sig.update(sig_extra or {})
            viols.append(core.violation("refused_valid", "%s raised %s on an input the model considers valid" % (kind, tag), sig, idx))
        check_all(idx, kind, failed=True)
        hist.append(rec)

    for idx, op in enumerate(case["ops"]):
        kind = op["op"]
        need = [op[x] for x in ("a", "b") if x in op]
        rec = {"i": idx, "op": kind}
        if any(x not in live for x in need):
            rec["outcome"] = "skipped:operand_missing"
            hist.append(rec)
            continue
        A = live[op["a"]] if "a" in op else None
        B = live[op["b"]] if "b" in op else None
        oid = op["id"]
        bump("op:" + kind)

        if kind == "construct":
            rx = list(op["rx"])
            sk = op["subs"]["kind"]
            ks = list(op["subs"]["keys"])
            fault = op.get("fault") or {}
            fac = Factory(fault.get("k") if fault.get("kind") == "factory_raise" else None)
            if sk == "none":
                sarg = None
                exp_subs = sorted(set().union(*[mb.keys(i) for i in rx])) if rx else []
                sorts = True
            elif sk == "str":
                sarg = " ".join(ks)
                exp_subs, sorts = ks, False
                if len(ks) < 2:  # a one-word string is not split: avoid the ambiguity
                    sarg = list(ks)
            elif sk == "list":
                sarg, exp_subs, sorts = list(ks), ks, False
            elif sk == "set":
                sarg, exp_subs, sorts = set(ks), sorted(ks), True
            elif sk == "odict":
                sarg, exp_subs, sorts = OrderedDict((k, mk_substance(k)) for k in ks), ks, False
            elif sk == "dict":  # a plain dict of Substance objects is not an ordering promise: sorted unless told otherwise
                sarg, exp_subs, sorts = dict((k, mk_substance(k)) for k in ks), ks, True
            else:  # objs
                sarg, exp_subs, sorts = [mk_substance(k) for k in ks], ks, False
            shared_list = None
            if op.get("share_with") in live:
                S = live[op["share_with"]]
                sarg, exp_subs, sorts, sk = S[0].substances, S[2], False, "shared"
                shared_list = S[2]
            if op.get("sort") is not None and not (sk in ("none", "set") and op["sort"] is False):
                sorts = op["sort"]
            if op.get("missing") and shared_list is None:
                missing = sorted(set().union(*[mb.keys(i) for i in rx]) - set(exp_subs)) if rx else []
                exp_subs = list(exp_subs) + missing
            if sorts:
                exp_subs = sorted(exp_subs)
                shared_list = None  # sorting rebinds the new system to a fresh mapping
            kw = dict(_checks_kwargs(op["checks"]))
            if op.get("sort") is not None and not (sk in ("none", "set") and op["sort"] is False):
                kw["sort_substances"] = op["sort"]
            if op.get("missing") and op.get("share_with") not in live:
                kw["missing_substances_from_keys"] = True
            caller_od = sarg if sk == "odict" else None
            caller_od_order = list(sarg.keys()) if sk == "odict" else None
            rxarg = [robjs[i] for i in rx]
            caller_lists.append((rxarg, [id(x) for x in rxarg]))
            if fault.get("kind") == "iter_raise":
                rxarg = rx_iter(rx, fault["k"], None)
            checks = _checks_set(op["checks"])
            bad = M.failing_checks(mb, rx, exp_subs, checks)
            expect_refusal = bool(bad) or fault.get("kind") in ("iter_raise",) or \
                (fault.get("kind") == "factory_raise" and sk in ("str", "list", "set"))
            if "balance" in checks and comps is not None:
                expect_refusal = None if not expect_refusal else True  # balance of random reactions: either way
            rec["args"] = {"rx": rx, "subs": [sk, ks], "sort": op.get("sort"), "checks": op["checks"], "fault": fault.get("kind")}
            try:
                obj = ReactionSystem(rxarg, sarg, substance_factory=fac, **kw)
            except Exception as ex:
                refused(rec, idx, kind, ex, expect_refusal, {"why": sorted(bad)})
                continue
            if expect_refusal is True and bad:
                # accepted although a documented constructor check should have refused
                viols.append(core.violation("accepted_invalid", "constructor accepted content failing checks %s" % sorted(bad),
                                            {"op": kind, "why": sorted(bad)}, idx))
            live["s%d" % oid] = [obj, rx, shared_list if shared_list is not None else list(exp_subs)]
            if caller_od is not None and [k for k in caller_od.keys() if k in caller_od_order] != caller_od_order:
                viols.append(core.violation("caller_mapping_reordered", "the OrderedDict handed to the constructor was reordered: %s -> %s" % (
                    caller_od_order, list(caller_od.keys())), {"op": kind}, idx))
            rec["outcome"] = "ok"
            rec["result"] = [rx, list(exp_subs)]
            states.add((kind, "ok", sk, op["checks"], min(len(rx), 5), len(M.components(mb, rx))))
            check_all(idx, kind)
            hist.append(rec)
            continue

        if kind in ("add", "iadd"):
            exp_rx = A[1] + B[1]
            exp_subs = M.ordered_union(A[2], B[2])
            try:
                if kind == "add":
                    out = A[0] + B[0]
                else:
                    obj = A[0]
                    obj += B[0]
                    out = obj
            except Exception as ex:
                refused(rec, idx, kind, ex, False)
                continue
            if kind == "add":
                live["s%d" % oid] = [out, exp_rx, exp_subs]
            else:
                if out is not A[0]:
                    viols.append(core.violation("iadd_identity", "+= returned a different object", {"op": kind}, idx))
                A[1] = exp_rx
                A[2][:] = exp_subs  # in place: systems sharing the mapping see the new substances too
            rec["outcome"] = "ok"
            rec["result"] = [exp_rx, exp_subs]
            states.add((kind, "ok", min(len(exp_rx), 6), op["a"] == op["b"], bool(set(A[2]) & set(B[2]))))
            check_all(idx, kind, touched=(op["a"],) if kind == "iadd" else ())
            hist.append(rec)
            continue

        if kind in ("add_list", "iadd_list"):
            rx = list(op["rx"])
            faulty = op.get("junk_at") is not None or op.get("iter_raise") is not None
            if op.get("as_iter") or faulty:
                arg = rx_iter(rx, op.get("iter_raise"), op.get("junk_at"))
                if not op.get("as_iter"):
                    arg = list(rx_iter(rx, None, op.get("junk_at")))
            else:
                arg = [robjs[i] for i in rx]
                caller_lists.append((arg, [id(x) for x in arg]))
            exp_rx = A[1] + rx
            rec["args"] = {"rx": rx, "junk_at": op.get("junk_at"), "iter_raise": op.get("iter_raise")}
            try:
                if kind == "add_list":
                    out = A[0] + arg
                else:
                    obj = A[0]
                    obj += arg
                    out = obj
            except Exception as ex:
                refused(rec, idx, kind, ex, True if faulty else False)
                continue
            if faulty:
                viols.append(core.violation("accepted_invalid", "%s accepted a faulty reaction iterable" % kind, {"op": kind}, idx))
            if kind == "add_list":
                live["s%d" % oid] = [out, exp_rx, list(A[2])]
            else:
                A[1] = exp_rx
            rec["outcome"] = "ok"
            rec["result"] = [exp_rx, list(A[2])]
            states.add((kind, "ok", min(len(exp_rx), 6), len(rx), bool(op.get("as_iter"))))
            check_all(idx, kind, touched=(op["a"],) if kind == "iadd_list" else ())
            hist.append(rec)
            continue

        if kind == "subset":
            pred = Pred(op["bits"], op.get("raise_at"))
            will_raise = op.get("raise_at") is not None and op["raise_at"] <= len(A[1])
            try:
                res = A[0].subset(pred, **_checks_kwargs(op.get("checks", "none")))
            except Exception as ex:
                refused(rec, idx, kind, ex, True if will_raise else False)
                continue
            yes_rx = [i for i in A[1] if op["bits"][i]]
            no_rx = [i for i in A[1] if not op["bits"][i]]
            ok = isinstance(res, tuple) and len(res) == 2
            if ok:
                for j, (part, prx) in enumerate(zip(res, (yes_rx, no_rx))):
                    touched = set().union(*[mb.keys(i) for i in prx]) if prx else set()
                    psubs = [k for k in A[2] if k in touched]
                    live["s%d.%d" % (oid, j)] = [part, prx, psubs]
            else:
                viols.append(core.violation("subset_shape", "subset returned %r" % (type(res).__name__,), {"op": kind}, idx))
            rec["outcome"] = "ok"
            rec["result"] = [yes_rx, no_rx]
            states.add((kind, "ok", min(len(yes_rx), 4), min(len(no_rx), 4)))
            check_all(idx, kind)
            hist.append(rec)
            continue

        if kind == "split":
            comps_ = M.components(mb, A[1])
            checks = _checks_set(op["checks"])
            child_bad = set()
            for poss, kset in comps_:
                child_bad |= M.failing_checks(mb, [A[1][p] for p in poss], [k for k in A[2] if k in kset], checks)
            expect = True if child_bad else False
            if "balance" in checks and comps is not None:
                expect = None
            try:
                parts = A[0].split(**_checks_kwargs(op["checks"]))
            except Exception as ex:
                refused(rec, idx, kind, ex, expect, {"why": sorted(child_bad)})
                continue
            # ---- oracle: partition / disjoint / connected / one per component
            sig = {"op": "split"}
            got = []
            for part in parts:
                prx, psubs = observe(part)
                got.append((prx, psubs))
            all_rx = sorted(i for prx, _ in got for i in prx)
            if all_rx != sorted(A[1]) or any(i < 0 for i in all_rx):
                viols.append(core.violation("split_not_partition", "parts hold reactions %s, parent %s" % ([g[0] for g in got], A[1]), sig, idx))
            seen = set()
            for prx, psubs in got:
                if seen & set(psubs):
                    viols.append(core.violation("split_not_disjoint", "substance sets overlap: %s" % [g[1] for g in got], sig, idx))
                seen |= set(psubs)
                touched = set().union(*[mb.keys(i) for i in prx]) if prx else set()
                want = [k for k in A[2] if k in touched]
                if sorted(psubs) != sorted(want):
                    viols.append(core.violation("split_substances", "part with reactions %s has substances %s, its reactions touch %s" % (prx, psubs, want), sig, idx))
                if len(M.components(mb, prx)) != 1:
                    viols.append(core.violation("split_not_connected", "part %s is not connected" % (prx,), sig, idx))
            if len(got) != len(comps_):
                viols.append(core.violation("split_count", "%d parts for %d components" % (len(got), len(comps_)), sig, idx))
            for j, (part, (prx, psubs)) in enumerate(zip(parts, got)):
                if j < 4 and all(i >= 0 for i in prx):
                    live["s%d.%d" % (oid, j)] = [part, prx, psubs]
            rec["outcome"] = "ok"
            rec["result"] = sorted([sorted(g[0]), sorted(g[1])] for g in got)
            states.add((kind, "ok", min(len(comps_), 5), min(len(A[1]), 8), op["checks"]))
            if len(comps_) >= 3:
                bump("probe:split_three_or_more_components")
            check_all(idx, kind)
            hist.append(rec)
            continue

        if kind == "concat":
            others = [op["b"]] + [x for x in op.get("more", []) if x in live and x != op["a"]]
            sum_rx, sum_subs = list(A[1]), list(A[2])
            skip_rx, skip_subs = [], []
            for oid_ in others:
                O = live[oid_]
                yes = [i for i in O[1] if not any(mb.same_stoich(i, j) for j in sum_rx)]
                no = [i for i in O[1] if any(mb.same_stoich(i, j) for j in sum_rx)]
                ty = set().union(*[mb.keys(i) for i in yes]) if yes else set()
                tn = set().union(*[mb.keys(i) for i in no]) if no else set()
                osubs_now = list(sum_subs) if O[2] is A[2] else list(O[2])  # an operand may share the first one's mapping
                sum_rx = sum_rx + yes
                sum_subs = M.ordered_union(sum_subs, [k for k in osubs_now if k in ty])
                skip_rx = skip_rx + no
                skip_subs = M.ordered_union(skip_subs, [k for k in osubs_now if k in tn])
            exp_sum, exp_skip = [sum_rx, sum_subs], [skip_rx, skip_subs]
            try:
                summed, skipped = ReactionSystem.concatenate([A[0]] + [live[x][0] for x in others])
            except Exception as ex:
                refused(rec, idx, kind, ex, False)
                continue
            del live[op["a"]]  # first argument is retired: whether it is mutated is unspecified
            A[2][:] = exp_sum[1]  # ... but its substances mapping is updated in place, which systems sharing it observe
            live["s%d.0" % oid] = [summed, exp_sum[0], A[2]]
            live["s%d.1" % oid] = [skipped, exp_skip[0], exp_skip[1]]
            rec["outcome"] = "ok"
            rec["result"] = [exp_sum, exp_skip]
            states.add((kind, "ok", min(len(sum_rx) - len(A[1]), 4), min(len(skip_rx), 4), len(others)))
            check_all(idx, kind)
            hist.append(rec)
            continue

        if kind == "sort_inplace":
            rkey = lambda k: tuple(-ord(c) for c in k) + (1,)  # noqa: E731
            try:
                if op.get("reverse"):
                    A[0].sort_substances_inplace(key=lambda kv: rkey(kv[0]))
                else:
                    A[0].sort_substances_inplace()
            except Exception as ex:
                refused(rec, idx, kind, ex, False)
                continue
            A[2] = sorted(A[2], key=rkey if op.get("reverse") else None)
            rec["outcome"], rec["result"] = "ok", list(A[2])
            states.add((kind, "ok", bool(op.get("reverse"))))
            check_all(idx, kind)
            hist.append(rec)
            continue

        if kind == "register":
            # the user registers a substance on the public ``substances`` mapping
            k = op["key"]
            A[0].substances[k] = mk_substance(k) if k in keys else Substance(k, composition={} if comps is not None else None)
            if k not in A[2]:
                A[2].append(k)
            rec["outcome"], rec["result"] = "ok", list(A[2])
            states.add((kind, "ok", k in keys))
            check_all(idx, kind)
            hist.append(rec)
            continue

        # ------------------------------------------------------------- read-only queries
        obj, rx, subs = A
        dang = dangling(rx, subs)
        if kind == "categorize":
            irr = M.expand_irreversible(mb, rx)
            checks = _checks_set(op["checks"])
            irr_dup = any(
                _irr_equal(mb, irr[x], irr[y]) for x in range(len(irr)) for y in range(x + 1, len(irr))) and "duplicate" in checks
            names = [bankspec[i].get("name") for i, rev in irr if bankspec[i].get("name") is not None and not rev]
            bad = set(M.failing_checks(mb, rx, subs, checks - {"duplicate"}))
            if irr_dup:
                bad.add("duplicate")
            expect = True if bad else False
            if any(bankspec[i].get("neg") for i in rx):
                expect = True  # "Expected positive stoichiometric coefficients"
            if ("balance" in checks and comps is not None) or "duplicate_names" in checks:
                expect = None if not bad else True  # names of expanded equilibria: unspecified
            ckw = dict(_checks_kwargs(op["checks"]))
            if op.get("sort_kw"):
                ckw["sort_substances"] = True
            try:
                cat = obj.categorize_substances(**ckw)
            except Exception as ex:
                refused(rec, idx, kind, ex, expect, {"why": sorted(bad)})
                continue
            want = M.categorize(mb, rx, subs)
            gotc = {k: set(v) for k, v in cat.items()} if isinstance(cat, dict) else None
            if gotc != want:
                viols.append(core.violation("categorize_wrong", "got %s want %s (reactions %s)" % (
                    _sorted_sets(gotc), _sorted_sets(want), rx), {"op": kind}, idx))
            rec["outcome"] = "ok"
            rec["result"] = _sorted_sets(want)
            states.add((kind, "ok", tuple(min(len(want[c]), 3) for c in sorted(want)), any(bankspec[i].get("eq") for i in rx)))
            for c in want:
                if want[c]:
                    bump("probe:category_" + c)
        elif kind == "equilibria":
            try:
                pairs = obj.identify_equilibria()
            except Exception as ex:
                refused(rec, idx, kind, ex, None if dang else False)
                continue
            first, allp = M.equilibria_pairs(mb, rx, subs)
            gotp = [tuple(p) for p in pairs]
            if not dang:
                if first == allp:
                    if sorted(gotp) != sorted(allp):
                        viols.append(core.violation("equilibria_wrong", "got %s want %s (reactions %s)" % (gotp, allp, rx), {"op": kind}, idx))
                else:  # ambiguous reading: every reported pair must be genuine and sorted, every first partner present
                    if any(p not in allp for p in gotp) or any(p[0] >= p[1] for p in gotp) or \
                            {p[0] for p in gotp} != {p[0] for p in allp}:
                        viols.append(core.violation("equilibria_wrong", "got %s, genuine reverse pairs %s" % (gotp, allp), {"op": kind, "ambiguous": True}, idx))
            rec["outcome"] = "ok"
            rec["result"] = sorted(gotp)
            states.add((kind, "ok", min(len(allp), 3), first == allp))
            if allp:
                bump("probe:reverse_pair_present")
        elif kind == "participation":
            try:
                got = obj.substance_participation(op["key"])
            except Exception as ex:
                refused(rec, idx, kind, ex, False)
                continue
            want = M.participation(mb, rx, op["key"])
            if list(got) != want:
                viols.append(core.violation("participation_wrong", "key %s got %s want %s" % (op["key"], got, want), {"op": kind}, idx))
            rec["outcome"], rec["result"] = "ok", want
            states.add((kind, "ok", min(len(want), 4)))
        elif kind == "effect":
            try:
                got = obj.per_reaction_effect_on_substance(op["key"])
            except Exception as ex:
                refused(rec, idx, kind, ex, False)
                continue
            want = M.effect(mb, rx, op["key"])
            if dict(got) != want:
                viols.append(core.violation("effect_wrong", "key %s got %s want %s" % (op["key"], got, want), {"op": kind}, idx))
            rec["outcome"], rec["result"] = "ok", sorted(want.items())
            states.add((kind, "ok", min(len(want), 4)))
        elif kind == "index":
            k = op["key"]
            try:
                got = obj.as_substance_index(k)
            except Exception as ex:
                refused(rec, idx, kind, ex, True if k not in subs else False)
                continue
            if k not in subs or got != subs.index(k):
                viols.append(core.violation("index_wrong", "key %s got %s, order %s" % (k, got, subs), {"op": kind}, idx))
            rec["outcome"], rec["result"] = "ok", got
            states.add((kind, "ok"))
        elif kind == "array":
            vals = _defaulting(dict(zip(case["keys"], op["vals"])), 1)
            var = op["variant"]
            want = [float(vals[k]) for k in subs]
            exp_raise = var in ("short", "unk_key", "unk_key_sparse") or (var == "missing_key" and len(subs) >= 1)
            try:
                if var in ("dict", "roundtrip"):
                    # keys deliberately NOT in substance order
                    arr = obj.as_per_substance_array({k: vals[k] for k in sorted(subs, key=lambda q: (vals[q] % 3, q), reverse=True)})
                elif var == "list":
                    arr = obj.as_per_substance_array(want)
                elif var == "short":
                    arr = obj.as_per_substance_array(want + [1.0])
                elif var == "missing_key":
                    arr = obj.as_per_substance_array({k: vals[k] for k in subs[1:]})
                elif var == "unk_key_sparse":
                    from collections import defaultdict

                    d = defaultdict(float)  # sparse mapping, missing substances default to 0
                    for k in subs[: max(0, len(subs) - 2)]:
                        d[k] = vals[k]
                    d["Zz"] = 1.0  # a misspelled key
                    arr = obj.as_per_substance_array(d, raise_on_unk=True)
                else:  # unk_key
                    d = {k: vals[k] for k in subs}
                    d["Zz"] = 1
                    arr = obj.as_per_substance_array(d, raise_on_unk=True)
            except Exception as ex:
                refused(rec, idx, kind + ":" + var, ex, exp_raise)
                continue
            if exp_raise:
                viols.append(core.violation("array_accepted_invalid", "variant %s accepted (substances %s)" % (var, subs), {"op": kind, "variant": var}, idx))
            elif list(map(float, arr)) != want:
                viols.append(core.violation("array_order_wrong", "got %s want %s (order %s)" % (list(arr), want, subs), {"op": kind}, idx))
            elif var == "roundtrip":
                back = obj.as_per_substance_dict(arr)
                if {k: float(v) for k, v in back.items()} != {k: float(vals[k]) for k in subs} or list(back.keys()) != subs:
                    viols.append(core.violation("array_order_wrong", "dict(array(d)) != d: %s" % (back,), {"op": kind, "variant": var}, idx))
            rec["outcome"], rec["result"] = "ok", want
            states.add((kind, "ok", var, min(len(subs), 6)))
        elif kind == "varied":
            vals = _defaulting(dict(zip(case["keys"], op["vals"])), 1)
            varied = {k: v for k, v in op["varied"].items() if k in subs}
            try:
                arr, vkeys = obj.per_substance_varied({k: vals[k] for k in reversed(subs)}, OrderedDict((k, varied[k]) for k in sorted(varied, reverse=True)))
            except Exception as ex:
                refused(rec, idx, kind, ex, False)
                continue
            want_keys = tuple(k for k in subs if k in varied)
            okv = tuple(vkeys) == want_keys and arr.shape == tuple(len(varied[k]) for k in want_keys) + (len(subs),)
            if okv:
                import itertools

                for combo in itertools.product(*[range(len(varied[k])) for k in want_keys]):
                    row = [float(vals[k]) for k in subs]
                    for ax, k in enumerate(want_keys):
                        row[subs.index(k)] = float(varied[k][combo[ax]])
                    if list(map(float, arr[combo])) != row:
                        okv = False
                        break
            if not okv:
                viols.append(core.violation("varied_wrong", "keys %s shape %s for varied %s order %s" % (vkeys, arr.shape, varied, subs), {"op": kind}, idx))
            rec["outcome"], rec["result"] = "ok", [list(want_keys), list(arr.shape)]
            states.add((kind, "ok", len(want_keys)))
        elif kind == "bounds":
            c0 = [Fraction(v, 8) for v in op["c0"]]
            cmap = _defaulting(dict(zip(case["keys"], c0)), Fraction(0))
            c0s = [cmap[k] for k in subs]
            bkw = {}
            if op.get("min_cb") == "numpy":
                bkw["min_"] = np.min
            elif op.get("min_cb") == "twopass":  # a user minimum that validates its candidates first (reads them twice)
                bkw["min_"] = lambda seq: (sum(1 for _ in seq), min(seq))[1]
            elif op.get("min_cb") == "strict":  # a user minimum that refuses NaN by raising ValueError
                def _strict_min(seq):
                    vals_ = list(seq)
                    if any(v != v for v in vals_):
                        raise ValueError("NaN among candidates")
                    return min(vals_)
                bkw["min_"] = _strict_min
            if op.get("skip_keys") == "empty":
                bkw["skip_keys"] = ()  # net charge is never an element, whether or not it is skipped when summing
            elif op.get("skip_keys") == "zero":
                bkw["skip_keys"] = (0,)
            try:
                ub = obj.upper_conc_bounds({k: float(cmap[k]) for k in reversed(subs)}, **bkw)
            except Exception as ex:
                refused(rec, idx, kind, ex, False)
                continue
            want = M.upper_bounds(_defaulting(comps, {}), subs, c0s)
            okb = len(ub) == len(subs)
            if okb:
                for k, g, w in zip(subs, ub, want):
                    if w is None:
                        if g != float("inf"):
                            okb = False
                    elif abs(float(g) - float(w)) > 1e-12 * max(1.0, float(w)):
                        okb = False
            if not okb:
                viols.append(core.violation("bounds_wrong", "got %s want %s for %s" % (list(ub), want, subs), {"op": kind}, idx))
            # no non-negative state with the same element totals exceeds the bound
            x = dict(zip(subs, c0s))
            moved = 0
            for mv in op.get("moves", ()):
                rel = case["relations"][mv["rel"]]
                if not all(k in x for k in rel):
                    continue
                d = mv["dir"]
                lim = min((x[k] / (-d * n) for k, n in rel.items() if d * n < 0), default=None)
                if lim is None or lim <= 0:
                    continue
                t = lim * Fraction(mv["t"], 8)
                for k, n in rel.items():
                    x[k] = x[k] + d * n * t
                moved += 1
            if moved and okb:
                tot0, tot1 = {}, {}
                for k in subs:
                    for e, n in comps.get(k, {}).items():
                        if e != 0:
                            tot0[e] = tot0.get(e, 0) + n * cmap[k]
                            tot1[e] = tot1.get(e, 0) + n * x[k]
                if tot0 != tot1 or any(v < 0 for v in x.values()):
                    raise core.HarnessError("bounds: generated state does not conserve totals")
                for k, g in zip(subs, ub):
                    if float(x[k]) > float(g) * (1 + 1e-12) + 1e-300:
                        viols.append(core.violation("bound_exceeded", "state %s of %s exceeds bound %s" % (x[k], k, g), {"op": kind}, idx))
                bump("probe:bounds_alternative_state")
            rec["outcome"], rec["result"] = "ok", [None if w is None else str(w) for w in want]
            states.add((kind, "ok", min(len(subs), 6), moved > 0))
        elif kind == "eq":
            try:
                r = obj == B[0]
            except Exception as ex:
                refused(rec, idx, kind, ex, False)
                continue
            same_obj = obj is B[0]
            rx_equal = len(rx) == len(B[1]) and all(mb.equal(i, j) for i, j in zip(rx, B[1]))
            if same_obj and not r:
                viols.append(core.violation("eq_wrong", "system != itself", {"op": kind}, idx))
            if r and not rx_equal:
                viols.append(core.violation("eq_wrong", "== True for different reaction lists %s %s" % (rx, B[1]), {"op": kind}, idx))
            if (not r) and rx_equal and subs == B[2]:
                viols.append(core.violation("eq_wrong", "== False for identical content", {"op": kind}, idx))
            rec["outcome"] = "ok:%s" % bool(r)
            states.add((kind, "ok", bool(r)))
        else:
            raise core.HarnessError("unknown op %r" % kind)
        check_all(idx, kind)
        hist.append(rec)

    bump("live_systems", len(live))
    canary_after = _canary()
    if canary_after != canary_before:
        viols.append(core.violation("process_state_leak", "admission of fresh systems changed during the history: %s -> %s" % (canary_before, canary_after),
                                    {"op": "canary"}, None))
    return {"history": hist, "violations": _dedup(viols), "stats": stats, "states": sorted(states, key=repr)}


class _defaulting(dict):
    """dict with a default for keys the case did not know about (substances registered later)."""

    def __init__(self, d, default):
        dict.__init__(self, d)
        self._default = default

    def __missing__(self, k):
        return self._default


def _irr_equal(mb, x, y):
    (i, ri), (j, rj) = x, y
    a, b = mb.rxns[i], mb.rxns[j]

    def sides(r, rev):
        s = (r["reac"], r["prod"], r.get("inact_reac", {}), r.get("inact_prod", {}))
        if rev:
            s = (s[1], s[0], s[3], s[2])
        p = r["param"]
        if isinstance(p, list):
            p = p[1] if rev else p[0]
        return s, p

    return sides(a, ri) == sides(b, rj)


def _sorted_sets(d):
    if d is None:
        return None
    return {k: sorted(v) for k, v in sorted(d.items())}


def _dedup(viols):
    seen, out = set(), []
    for v in viols:
        k = (v["class"], core.canon(v["sig"]), v["op_index"])
        if k not in seen:
            seen.add(k)
            out.append(v)
    return out


# ----------------------------------------------------------------------------- shrinking


def shrink(case, still_fails):
    def with_ops(ops):
        c = dict(case)
        c["ops"] = ops
        return c

    ops = core.ddmin_list(case["ops"], lambda o: still_fails(with_ops(o)), budget=[250])
    cur = with_ops(ops)
    # drop injected faults that are not needed
    for i, op in enumerate(list(cur["ops"])):
        for fld, val in (("fault", None), ("raise_at", None), ("junk_at", None), ("iter_raise", None)):
            if op.get(fld) is not None:
                trial = [dict(o) for o in cur["ops"]]
                trial[i][fld] = val
                if still_fails(with_ops(trial)):
                    cur = with_ops(trial)
    # shrink reaction lists of constructs
    for i, op in enumerate(list(cur["ops"])):
        if op["op"] == "construct" and len(op["rx"]) > 1:
            def test(rx, i=i):
                trial = [dict(o) for o in cur["ops"]]
                trial[i]["rx"] = rx
                return still_fails(with_ops(trial))

            rx = core.ddmin_list(op["rx"], test, budget=[40])
            trial = [dict(o) for o in cur["ops"]]
            trial[i]["rx"] = rx
            if still_fails(with_ops(trial)):
                cur = with_ops(trial)
    return cur


# ----------------------------------------------------------------------------- reporting


def is_trivial_state(s):
    return s[1] == "raise" or s[0] in ("index", "eq")


def describe():
    return {
        "rule": ("seeded histories (3-20 operations) over a pool of live ReactionSystem objects built from a shared bank of 4-14 "
                 "reactions over 4-12 substances (several components, catalysts, inactive parts, exact reverses, twins, equilibria): "
                 "construct/+/+=/subset/split/concatenate interleaved with structural queries; a state is (operation, outcome, "
                 "size/shape buckets of operands and result); trivial = refused operations, as_substance_index and =="),
        "real_components": ["chempy.reactionsystem.ReactionSystem (constructor, split, categorize_substances, identify_equilibria, "
                            "subset, concatenate, __add__, __iadd__, __eq__, substance_participation, per_reaction_effect_on_substance, "
                            "as_per_substance_array/dict, as_substance_index, per_substance_varied, upper_conc_bounds)",
                            "chempy.chemistry.Reaction / Equilibrium / Substance"],
        "stubbed_components": ["predicate passed to subset (simulator object, answers from the case, can raise at its k-th call)",
                               "substance_factory (simulator object, can raise at its k-th call)",
                               "reaction iterables handed to +, += and the constructor (can raise mid-iteration or contain a non-Reaction)"],
        "assumptions": ["the first argument of ReactionSystem.concatenate is retired from the pool (its mutation is unspecified)",
                        "identify_equilibria is asserted exactly only when every reaction has at most one later reverse partner",
                        "random reactions are not element-balanced: formula-mode systems are built with dont_check={'balance'} or checks=()"],
        "extra": {"fault_kinds": ["pred_raise", "factory_raise", "iter_raise", "junk_item", "refused construction (unknown key, duplicate, duplicate name)", "PYTHONHASHSEED variation"]},
    }
