#!/venv/bin/python
"""Runs the pinned baseline test command on /repo (guard off) and compares the set of
passing tests with /root/.vp/BASELINE.json stable_pass.  Exit 0 iff no stable test is lost."""
import json, os, subprocess, sys, tempfile
import xml.etree.ElementTree as ET

b = json.load(open('/root/.vp/BASELINE.json'))
out = tempfile.mktemp(suffix='.junit.xml', dir='/dev/shm')
repo = sys.argv[1] if len(sys.argv) > 1 else '/repo'
cmd = b['cmd'].replace('<file>', out).replace('cd /repo', 'cd ' + repo)
env = dict(os.environ)
env.pop('CHEMPY_VERIF', None)
p = subprocess.run(cmd, shell=True, env=env, stdout=subprocess.PIPE, stderr=subprocess.STDOUT)
passed = set()
for tc in ET.parse(out).getroot().iter('testcase'):
    if not any(ch.tag in ('failure', 'error', 'skipped') for ch in tc):
        passed.add('%s::%s' % (tc.get('classname'), tc.get('name')))
os.remove(out)
missing = sorted(set(b['stable_pass']) - passed)
print('stable_pass=%d passed_now=%d missing=%d' % (len(b['stable_pass']), len(passed), len(missing)))
for m in missing[:20]:
    print('  MISSING', m)
sys.exit(1 if missing else 0)
