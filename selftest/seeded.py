#!/venv/bin/python
"""Evaluates seeded changes (/verif/seeded/<id>/{patch.diff,demo.py,meta.json}):
  1. confirm: on a scratch copy of /repo HEAD (under /dev/shm, removed afterwards) the demo passes without and
     fails with the patch, and the pinned stable test-suite still passes with the patch;
  2. detect: run the property's quick check against the patched copy (VERIF_REPO=<copy>) for the given seeds.
Writes the outcome into meta.json (keys confirmed, detection).
usage: selftest/seeded.py [<id> ...] [--seeds 0,1] [--skip-confirm] [--tier quick]"""
import json, os, shutil, subprocess, sys, tempfile, time
HERE = os.path.dirname(os.path.dirname(os.path.abspath(__file__)))
SEEDED = os.path.join(HERE, "seeded")
args = sys.argv[1:]
seeds = [0, 1]
if "--seeds" in args:
    seeds = [int(x) for x in args[args.index("--seeds") + 1].split(",")]
skip_confirm = "--skip-confirm" in args
ids = [a for a in args if not a.startswith("--") and not a.replace(",", "").isdigit()] or sorted(os.listdir(SEEDED))


def sh(cmd, **kw):
    try:
        p = subprocess.run(cmd, shell=isinstance(cmd, str), stdout=subprocess.PIPE, stderr=subprocess.STDOUT, timeout=2400, **kw)
    except subprocess.TimeoutExpired as e:
        return 124, (e.stdout or b"").decode() + "\nTIMEOUT"
    return p.returncode, p.stdout.decode()


for sid in ids:
    d = os.path.join(SEEDED, sid)
    if not os.path.isfile(os.path.join(d, "patch.diff")):
        continue
    meta = json.load(open(os.path.join(d, "meta.json")))
    base = tempfile.mkdtemp(prefix="verif-seeded-", dir="/dev/shm")
    try:
        repo = os.path.join(base, "repo")
        os.makedirs(repo)
        sh("git -C /repo archive HEAD | tar -x -C %s" % repo)
        demo = os.path.join(d, "demo.py")
        env = dict(os.environ, PYTHONPATH=repo, PYTHONDONTWRITEBYTECODE="1")
        if not skip_confirm:
            rc0, out0 = sh(["/venv/bin/python", demo], env=env, cwd=base)
            rca, outa = sh("cd %s && git init -q . && git apply --whitespace=nowarn %s" % (repo, os.path.join(d, "patch.diff")))
            if rca != 0:
                print(sid, "PATCH DOES NOT APPLY", outa[-300:])
                continue
            rc1, out1 = sh(["/venv/bin/python", demo], env=env, cwd=base)
            rcb, outb = sh(["/venv/bin/python", os.path.join(HERE, "selftest", "baseline.py"), repo])
            meta["confirmed"] = {"demo_exit_without_patch": rc0, "demo_exit_with_patch": rc1, "stable_tests_pass_with_patch": rcb == 0,
                                 "baseline_line": outb.strip().splitlines()[0] if outb.strip() else ""}
            ok = rc0 == 0 and rc1 != 0 and rcb == 0
            meta["confirmed"]["ok"] = ok
        else:
            rca, outa = sh("cd %s && git init -q . && git apply --whitespace=nowarn %s" % (repo, os.path.join(d, "patch.diff")))
        det = {}
        for prop in meta["checks_to_run"]:
            for seed in seeds:
                t = time.time()
                rc, out = sh([os.path.join(HERE, "check"), prop, "--tier", "quick", "--no-evidence", "--no-cross"],
                             env=dict(os.environ, VERIF_REPO=repo, VERIF_SEED=str(seed)))
                classes = sorted({ln.split("class=")[1].split()[0] for ln in out.splitlines() if ln.strip().startswith("class=")})
                det["%s/seed%d" % (prop, seed)] = {"exit": rc, "classes": classes, "wall_s": round(time.time() - t, 1)}
                if rc == 2:
                    det["%s/seed%d" % (prop, seed)]["tail"] = out[-600:]
        meta["detection"] = det
        meta["detected"] = any(v["exit"] == 1 for v in det.values())
        meta["what_was_run"] = ("selftest/seeded.py: scratch copy of /repo HEAD under /dev/shm, patch applied with git apply; demo run without/with patch; "
                                "selftest/baseline.py <copy> (pinned pytest command vs BASELINE.json stable_pass); ./check <prop> --tier quick with VERIF_REPO=<copy>")
        json.dump(meta, open(os.path.join(d, "meta.json"), "w"), indent=1)
        print("%-14s confirmed=%s detected=%s %s" % (sid, meta.get("confirmed", {}).get("ok"), meta["detected"],
                                                    {k: (v["exit"], v["classes"]) for k, v in det.items()}), flush=True)
    finally:
        shutil.rmtree(base, ignore_errors=True)
