#!/venv/bin/python
# -*- coding: utf-8 -*-
"""Sensitivity self-test: applies each small source mutation to a scratch copy of /repo
(under /dev/shm, removed afterwards), runs the property's quick check against the copy
(VERIF_REPO=<copy>) and expects exit 1 with a VIOLATION line.  Also runs the unmodified
copy (must exit 0).  With --tests also reports whether the repo's own test-suite notices.

usage: selftest/mutants.py [C02|C08|C11|C15 ...] [--tests] [--only <mutant-id>] [--runs N]
"""
import json
import os
import shutil
import subprocess
import sys
import tempfile

HERE = os.path.dirname(os.path.dirname(os.path.abspath(__file__)))
sys.path.insert(0, os.path.dirname(os.path.abspath(__file__)))
from mutant_defs import MUTANTS  # noqa


def run_check(prop, repo, runs=None, seed=0):
    env = dict(os.environ, VERIF_REPO=repo, VERIF_SEED=str(seed))
    cmd = [os.path.join(HERE, "check"), prop, "--tier", "quick", "--no-evidence", "--no-cross"]
    if runs:
        cmd += ["--runs", str(runs)]
    p = subprocess.run(cmd, env=env, stdout=subprocess.PIPE, stderr=subprocess.STDOUT, timeout=3600)
    out = p.stdout.decode()
    return p.returncode, out


def run_tests(repo):
    """Does the repository's own (pinned, stable) test-suite notice the mutation?"""
    p = subprocess.run(["/venv/bin/python", os.path.join(HERE, "selftest", "baseline.py"), repo], stdout=subprocess.PIPE, stderr=subprocess.STDOUT)
    out = p.stdout.decode().strip().splitlines()
    return p.returncode == 0, (out[0] if out else "")


def main():
    args = sys.argv[1:]
    with_tests = "--tests" in args
    only = None
    runs = None
    if "--only" in args:
        only = args[args.index("--only") + 1]
    if "--runs" in args:
        runs = int(args[args.index("--runs") + 1])
    props = [a for a in args if a.upper() in ("C02", "C08", "C11", "C15")]
    props = [p.upper() for p in props] or ["C02", "C08", "C11", "C15"]
    results = []
    for prop in props:
        muts = [m for m in MUTANTS if m["prop"] == prop and (only is None or m["id"] == only)]
        if not muts:
            continue
        base = tempfile.mkdtemp(prefix="verif-mut-", dir="/dev/shm")
        try:
            repo = os.path.join(base, "repo")
            shutil.copytree("/repo", repo, ignore=shutil.ignore_patterns(".git", "build", "*.egg-info", "__pycache__", "examples", "joss-paper", "benchmarks"))
            if only is None:
                rc, out = run_check(prop, repo, runs)
                print("%s unmodified copy: exit %d" % (prop, rc))
                if rc != 0:
                    print(out[-1500:])
                results.append({"prop": prop, "id": "unmodified", "detected": rc != 0, "ok": rc == 0})
            for m in muts:
                path = os.path.join(repo, m["file"])
                src = open(path).read()
                if src.count(m["old"]) != 1:
                    print("%s %s: pattern occurs %d times - SKIPPED" % (prop, m["id"], src.count(m["old"])))
                    results.append({"prop": prop, "id": m["id"], "detected": None, "ok": False})
                    continue
                mutated = src.replace(m["old"], m["new"])
                for extra in m.get("also", ()):  # two cooperating sites in the same file
                    assert mutated.count(extra["old"]) == 1, extra["old"]
                    mutated = mutated.replace(extra["old"], extra["new"])
                open(path, "w").write(mutated)
                try:
                    rc, out = run_check(prop, repo, runs)
                    classes = sorted({ln.split("class=")[1].split()[0] for ln in out.splitlines() if ln.strip().startswith("class=")})
                    line = "%s %-34s exit %d %s" % (prop, m["id"], rc, ",".join(classes))
                    if with_tests:
                        ok, last = run_tests(repo)
                        line += "   [repo tests: %s]" % ("pass" if ok else "FAIL: " + last)
                    print(line)
                    if rc == 2:
                        print(out[-800:])
                    results.append({"prop": prop, "id": m["id"], "detected": rc == 1, "ok": rc == 1, "classes": classes})
                finally:
                    open(path, "w").write(src)
        finally:
            shutil.rmtree(base, ignore_errors=True)
    bad = [r for r in results if not r["ok"]]
    print("mutants: %d run, %d not as expected: %s" % (len(results), len(bad), [r["id"] for r in bad]))
    return 1 if bad else 0


if __name__ == "__main__":
    sys.exit(main())
