# -*- coding: utf-8 -*-
"""Reference model for C15: a reaction system is an ordered list of reaction identities
(indices into the case's reaction bank) plus an ordered list of substance keys.  All
structural queries are recomputed here from raw stoichiometry, by definition."""
from fractions import Fraction


class Bank(object):
    def __init__(self, rxns):
        self.rxns = rxns  # list of dict(reac, prod, inact_reac, inact_prod, param, name, eq)

    def keys(self, i):
        r = self.rxns[i]
        return set(r["reac"]) | set(r["prod"]) | set(r.get("inact_reac", {})) | set(r.get("inact_prod", {}))

    def all_reac(self, i, k):
        r = self.rxns[i]
        return r["reac"].get(k, 0) + r.get("inact_reac", {}).get(k, 0)

    def all_prod(self, i, k):
        r = self.rxns[i]
        return r["prod"].get(k, 0) + r.get("inact_prod", {}).get(k, 0)

    def net(self, i, k):
        return self.all_prod(i, k) - self.all_reac(i, k)

    def equal(self, i, j):
        a, b = self.rxns[i], self.rxns[j]
        return all(_nz(a.get(f, {})) == _nz(b.get(f, {})) for f in ("reac", "prod", "inact_reac", "inact_prod")) and \
            _param(a) == _param(b)

    def same_stoich(self, i, j):
        a, b = self.rxns[i], self.rxns[j]
        return all(_nz(a.get(f, {})) == _nz(b.get(f, {})) for f in ("reac", "prod", "inact_reac", "inact_prod"))


def _nz(d):
    return dict(d)


def _param(r):
    p = r["param"]
    return tuple(p) if isinstance(p, list) else p


def ordered_union(a, b):
    out = list(a)
    seen = set(a)
    for k in b:
        if k not in seen:
            seen.add(k)
            out.append(k)
    return out


def components(bank, rx):
    """Connected components of the reaction graph: list of (sorted positions, key set),
    ordered by smallest position."""
    parent = {}

    def find(x):
        while parent[x] != x:
            parent[x] = parent[parent[x]]
            x = parent[x]
        return x

    def union(a, b):
        ra, rb = find(a), find(b)
        if ra != rb:
            parent[rb] = ra

    for pos, i in enumerate(rx):
        node = ("r", pos)
        parent[node] = node
        for k in bank.keys(i):
            kn = ("k", k)
            if kn not in parent:
                parent[kn] = kn
            union(node, kn)
    comps = {}
    for pos, i in enumerate(rx):
        root = find(("r", pos))
        c = comps.setdefault(root, ([], set()))
        c[0].append(pos)
        c[1].update(bank.keys(i))
    return sorted(comps.values(), key=lambda c: c[0][0])


def expand_irreversible(bank, rx):
    """Equilibria count as a forward and a backward reaction (list of (all_reac, all_prod) getters)."""
    out = []
    for i in rx:
        out.append((i, False))
        if bank.rxns[i].get("eq"):
            out.append((i, True))
    return out


def categorize(bank, rx, subs):
    acc, dep, una, non = set(), set(), set(), set()
    irr = expand_irreversible(bank, rx)
    for k in subs:
        in_r = in_p = present = False
        for i, rev in irr:
            ar, apd = bank.all_reac(i, k), bank.all_prod(i, k)
            if rev:
                ar, apd = apd, ar
            n = apd - ar
            if n < 0:
                in_r = True
            if n > 0:
                in_p = True
            if ar > 0 or apd > 0:
                present = True
        if in_r and in_p:
            continue
        if in_r:
            dep.add(k)
        elif in_p:
            acc.add(k)
        elif present:
            una.add(k)
        else:
            non.add(k)
    return {"accumulated": acc, "depleted": dep, "unaffected": una, "nonparticipating": non}


def is_reverse(bank, i, j, keys):
    return all(bank.all_reac(i, k) == bank.all_prod(j, k) and bank.all_prod(i, k) == bank.all_reac(j, k) for k in keys)


def equilibria_pairs(bank, rx, subs):
    """Returns (first_partner_pairs, all_pairs) over positions, reverses judged over *all* keys
    of the two reactions and the system's substances."""
    first, allp = [], []
    for p1, i in enumerate(rx):
        got = False
        for p2 in range(p1 + 1, len(rx)):
            j = rx[p2]
            keys = set(subs) | bank.keys(i) | bank.keys(j)
            if is_reverse(bank, i, j, keys):
                allp.append((p1, p2))
                if not got:
                    first.append((p1, p2))
                    got = True
    return first, allp


def participation(bank, rx, key):
    return [p for p, i in enumerate(rx) if key in bank.keys(i)]


def effect(bank, rx, key):
    return {p: bank.net(i, key) for p, i in enumerate(rx) if bank.net(i, key) != 0}


def failing_checks(bank, rx, subs, checks):
    """Which of the constructor checks would refuse this content ('balance' is decided by the caller)."""
    bad = set()
    if "substance_keys" in checks:
        s = set(subs)
        if any(not bank.keys(i) <= s for i in rx):
            bad.add("substance_keys")
    if "duplicate" in checks:
        if any(bank.equal(rx[a], rx[b]) for a in range(len(rx)) for b in range(a + 1, len(rx))):
            bad.add("duplicate")
    if "duplicate_names" in checks:
        names = [bank.rxns[i].get("name") for i in rx if bank.rxns[i].get("name") is not None]
        if len(names) != len(set(names)):
            bad.add("duplicate_names")
    return bad


def upper_bounds(comps, subs, c0):
    """Exact elemental upper bound per substance: min over non-charge components of
    (component total)/(atoms per molecule); None = unbounded."""
    totals = {}
    for k, c in zip(subs, c0):
        for e, n in comps[k].items():
            if e == 0:
                continue
            totals[e] = totals.get(e, Fraction(0)) + Fraction(n) * Fraction(c)
    out = []
    for k in subs:
        cands = [totals[e] / Fraction(n) for e, n in comps[k].items() if e != 0]
        out.append(min(cands) if cands else None)
    return out
