# -*- coding: utf-8 -*-
"""Pool of equilibria with explicit, independent species compositions, and the defining-
equation oracle for C08 (own arithmetic: never uses chempy's matrices or quotients)."""
import math

# species -> composition {atomic number: count, 0: charge}; '(s)' species are solids (phase 1)
SPECIES = {
    "H2O": {1: 2, 8: 1}, "H+": {1: 1, 0: 1}, "OH-": {1: 1, 8: 1, 0: -1},
    "NH4+": {7: 1, 1: 4, 0: 1}, "NH3": {7: 1, 1: 3},
    "HOAc": {6: 2, 1: 4, 8: 2}, "OAc-": {6: 2, 1: 3, 8: 2, 0: -1},
    "H2CO3": {1: 2, 6: 1, 8: 3}, "HCO3-": {1: 1, 6: 1, 8: 3, 0: -1}, "CO3-2": {6: 1, 8: 3, 0: -2},
    "H3PO4": {1: 3, 15: 1, 8: 4}, "H2PO4-": {1: 2, 15: 1, 8: 4, 0: -1}, "HPO4-2": {1: 1, 15: 1, 8: 4, 0: -2}, "PO4-3": {15: 1, 8: 4, 0: -3},
    "HF": {1: 1, 9: 1}, "F-": {9: 1, 0: -1},
    "Cu+2": {29: 1, 0: 2}, "CuNH3+2": {29: 1, 7: 1, 1: 3, 0: 2}, "Cu(NH3)2+2": {29: 1, 7: 2, 1: 6, 0: 2},
    "Cu(NH3)3+2": {29: 1, 7: 3, 1: 9, 0: 2}, "Cu(NH3)4+2": {29: 1, 7: 4, 1: 12, 0: 2},
    "Fe+3": {26: 1, 0: 3}, "SCN-": {16: 1, 6: 1, 7: 1, 0: -1}, "FeSCN+2": {26: 1, 16: 1, 6: 1, 7: 1, 0: 2},
    "Ag+": {47: 1, 0: 1}, "AgNH3+": {47: 1, 7: 1, 1: 3, 0: 1}, "Ag(NH3)2+": {47: 1, 7: 2, 1: 6, 0: 1},
    "Na+": {11: 1, 0: 1}, "Cl-": {17: 1, 0: -1}, "NaCl(s)": {11: 1, 17: 1},
    "AgCl(s)": {47: 1, 17: 1}, "Ba+2": {56: 1, 0: 2}, "SO4-2": {16: 1, 8: 4, 0: -2}, "BaSO4(s)": {56: 1, 16: 1, 8: 4},
    "Ca+2": {20: 1, 0: 2}, "CaF2(s)": {20: 1, 9: 2},
    "I-": {53: 1, 0: -1}, "AgI(s)": {47: 1, 53: 1},
}

# name -> (reac, prod, log10 K)
EQUILIBRIA = {
    "water": ({"H2O": 1}, {"H+": 1, "OH-": 1}, -14.0 - math.log10(55.5)),
    "nh4": ({"NH4+": 1}, {"NH3": 1, "H+": 1}, -9.24),
    "hoac": ({"HOAc": 1}, {"OAc-": 1, "H+": 1}, -4.76),
    "h2co3": ({"H2CO3": 1}, {"HCO3-": 1, "H+": 1}, -6.35),
    "hco3": ({"HCO3-": 1}, {"CO3-2": 1, "H+": 1}, -10.33),
    "h3po4": ({"H3PO4": 1}, {"H2PO4-": 1, "H+": 1}, -2.15),
    "h2po4": ({"H2PO4-": 1}, {"HPO4-2": 1, "H+": 1}, -7.20),
    "hpo4": ({"HPO4-2": 1}, {"PO4-3": 1, "H+": 1}, -12.35),
    "hf": ({"HF": 1}, {"H+": 1, "F-": 1}, -3.17),
    "cu1": ({"Cu+2": 1, "NH3": 1}, {"CuNH3+2": 1}, 4.3),
    "cu2": ({"CuNH3+2": 1, "NH3": 1}, {"Cu(NH3)2+2": 1}, 3.6),
    "cu3": ({"Cu(NH3)2+2": 1, "NH3": 1}, {"Cu(NH3)3+2": 1}, 3.0),
    "cu4": ({"Cu(NH3)3+2": 1, "NH3": 1}, {"Cu(NH3)4+2": 1}, 2.3),
    "fescn": ({"Fe+3": 1, "SCN-": 1}, {"FeSCN+2": 1}, 2.95),
    "ag1": ({"Ag+": 1, "NH3": 1}, {"AgNH3+": 1}, 3.3),
    "ag2": ({"AgNH3+": 1, "NH3": 1}, {"Ag(NH3)2+": 1}, 3.9),
    # single-salt precipitation
    "nacl": ({"NaCl(s)": 1}, {"Na+": 1, "Cl-": 1}, math.log10(37.0)),
    "agcl": ({"AgCl(s)": 1}, {"Ag+": 1, "Cl-": 1}, -9.74),
    "baso4": ({"BaSO4(s)": 1}, {"Ba+2": 1, "SO4-2": 1}, -9.96),
    "caf2": ({"CaF2(s)": 1}, {"Ca+2": 1, "F-": 2}, -10.41),
    "agi": ({"AgI(s)": 1}, {"Ag+": 1, "I-": 1}, -16.07),
    # overall (multi-proton / multi-ligand) reactions: coefficient patterns other than 1:1:1, used on their own
    "h2co3_overall": ({"H2CO3": 1}, {"H+": 2, "CO3-2": 1}, -16.68),
    "h3po4_overall": ({"H3PO4": 1}, {"H+": 3, "PO4-3": 1}, -21.70),
    "agnh32_diss": ({"Ag(NH3)2+": 1}, {"Ag+": 1, "NH3": 2}, -7.2),
    "cunh34_diss": ({"Cu(NH3)4+2": 1}, {"Cu+2": 1, "NH3": 4}, -13.2),
}

# groups that make chemical sense together (prerequisite chains kept in order)
CHAINS = [["nh4"], ["hoac"], ["h2co3", "hco3"], ["h3po4", "h2po4", "hpo4"], ["hf"], ["cu1", "cu2", "cu3", "cu4"],
          ["fescn"], ["ag1", "ag2"]]
SALTS = ["nacl", "agcl", "baso4", "caf2", "agi"]
OVERALL = ["h2co3_overall", "h3po4_overall", "agnh32_diss", "cunh34_diss"]


def is_solid(name):
    return name.endswith("(s)")


def check_point(spec, c0, x, tol_cons=1e-6, tol_lnq=1e-5):
    """Defining-equation oracle for one returned concentration vector.

    spec: dict(species=[names], eqs=[dict(reac, prod, K)]); c0, x: lists in species order.
    Returns list of (clause, detail) for every violated clause."""
    names = spec["species"]
    bad = []
    xs = [float(v) for v in x]
    if any(not math.isfinite(v) for v in xs):
        return [("nonfinite", "returned %s" % xs)]
    if any(v < 0 for v in xs):
        bad.append(("negative", "negative concentration in %s" % xs))
    # conservation of every element and of charge
    comps = sorted({z for n in names for z in SPECIES[n]})
    solutes = [abs(c) for n, c in zip(names, c0) if n != "H2O"] or [abs(c) for c in c0]
    # The delegated solver works to tol=1e-8 relative to the magnitude of the whole unknown vector, so a component whose
    # total is orders of magnitude below the dominant solute (a trace element, or charge = a difference of large terms)
    # carries an absolute error set by the dominant scale.  Conservation is therefore demanded to 1e-6 of the component's
    # own scale OR 1e-6 of the largest solute concentration, whichever is larger (recorded change, DESIGN.md 9.3:
    # the earlier floor of 1e-10 flagged errors of 8e-11 M in a 4e-4 M system during a 25-minute thorough run).
    floor = 1e-6 * max(solutes + [1e-300])
    for z in comps:
        tot0 = sum(SPECIES[n].get(z, 0) * c for n, c in zip(names, c0))
        tot1 = sum(SPECIES[n].get(z, 0) * c for n, c in zip(names, xs))
        scale = sum(abs(SPECIES[n].get(z, 0)) * abs(c) for n, c in zip(names, c0))
        if abs(tot1 - tot0) > tol_cons * scale + floor:
            bad.append(("conservation", "component %s: %r -> %r" % (z, tot0, tot1)))
    if bad:
        return bad
    conc = dict(zip(names, xs))
    if tol_lnq == float("inf"):
        return bad  # caller only wants sign and conservation
    for eq in spec["eqs"]:
        solids = [n for n in list(eq["reac"]) + list(eq["prod"]) if is_solid(n)]
        lnq = 0.0
        zero_side = None
        zr = any(conc[n] <= 0 for n in eq["reac"] if not is_solid(n))
        zp = any(conc[n] <= 0 for n in eq["prod"] if not is_solid(n))
        if zr and zp and not solids:
            continue  # 0/0: the equilibrium is vacuous (an element with zero total)
        for n, nu in list((k, -v) for k, v in eq["reac"].items()) + list(eq["prod"].items()):
            if is_solid(n):
                continue
            if conc[n] <= 0:
                zero_side = "reac" if nu < 0 else "prod"
                lnq = None
                break
            lnq += nu * math.log(conc[n])
        lnk = math.log(eq["K"])
        if not solids:
            if lnq is None:
                bad.append(("q_ne_k", "a species of %s is exactly zero" % (eq,)))
            elif abs(lnq - lnk) > tol_lnq:
                bad.append(("q_ne_k", "ln Q - ln K = %.3g for %s" % (lnq - lnk, _eqstr(eq))))
        else:
            s = solids[0]
            total = max(sum(abs(c) for c in c0), 1e-300)
            present = conc[s] > max(1e-14, 1e-12 * total)
            if present:
                if lnq is None or abs(lnq - lnk) > tol_lnq:
                    bad.append(("solid_present_q_ne_ksp", "solid %s present (%.3g) but ln Q - ln Ksp = %s" % (s, conc[s], None if lnq is None else "%.3g" % (lnq - lnk))))
            else:
                if lnq is not None and lnq - lnk > 1e-6 and zero_side != "prod":
                    bad.append(("solid_absent_supersaturated", "solid %s absent but ln Q - ln Ksp = %.3g" % (s, lnq - lnk)))
    return bad


def _eqstr(eq):
    return "%s = %s" % (" + ".join("%s%s" % (v if v != 1 else "", k) for k, v in eq["reac"].items()),
                        " + ".join("%s%s" % (v if v != 1 else "", k) for k, v in eq["prod"].items()))
