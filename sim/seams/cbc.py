# -*- coding: utf-8 -*-
"""SimCBC: the simulator's stand-in for the external CBC solver process and its temp files.

chempy calls ``pulp.PULP_CBC_CMD(msg=False)`` and looks the name up on the ``pulp`` module at
call time, so binding ``pulp.PULP_CBC_CMD`` to the subclass below puts the simulator between
chempy and (a) the solver executable, (b) the MPS file PuLP writes, (c) the solution file the
solver writes.  With an empty fault plan the real ``cbc`` binary runs unchanged.

Fault kinds (applied to the n-th solver invocation of the current call):

  exe_missing            executable "not found"                    -> PulpSolverError
  exit_before            process exits 1 before doing anything      (no solution file)
  killed_before          process killed (-9) before doing anything
  exit_after / killed_after   solver ran and wrote its output, then reported failure
  sol_missing            solution file lost
  sol_empty              solution file empty
  sol_torn {at}          solution file cut at byte ``at``
  sol_stale              solution file holds the previous invocation's bytes
  sol_header {text}      first line status rewritten (Infeasible / Stopped on time / Unbounded)
  sol_noise {sign}       integral values perturbed by +-1e-9 (float noise a MIP solver produces)
  sol_perturb {var,d}    one variable value changed by d (a solver returning an infeasible vector)
  sol_scale {m}          every value multiplied by m (a feasible but non-optimal incumbent)
  sol_set {values,text}  the solver hands back the given vector (e.g. one that satisfies every equality but violates
                         a bound - what CBC reports for some infeasible integer programs)
  sol_drop_row {var}     one variable row lost from the file
  relax_lp               solver run without integrality (mip=False): fractional optimum
  stop_nodes0            branch and bound stopped at once (maxNodes=0)
  mps_enospc {at}        writing the MPS file fails with ENOSPC after ``at`` bytes
  mps_eio                writing the MPS file fails with EIO
  mps_torn {line}        MPS file silently cut after ``line`` lines (lost write)
  tmpdir_gone            temp directory removed before the solver starts
"""
from __future__ import annotations

import errno
import os
import shutil
import subprocess as _real_subprocess
import tempfile
import types

SOLVER_WALL_CAP_S = 30

FAULT_KINDS = [
    "exe_missing", "exit_before", "killed_before", "exit_after", "killed_after", "sol_missing", "sol_empty",
    "sol_torn", "sol_stale", "sol_header", "sol_noise", "sol_perturb", "sol_scale", "sol_set", "sol_drop_row", "relax_lp", "stop_nodes0",
    "mps_enospc", "mps_eio", "mps_torn", "tmpdir_gone",
]


class World(object):
    """Per-process simulator state of the CBC seam."""

    def __init__(self):
        self.tmp = None
        self.reset({})
        self.prev_sols = []  # distinct recent solution files of earlier invocations (survives reset)

    def reset(self, plan):
        self.plan = {int(k): v for k, v in plan.items()}
        self.n = 0
        self.log = []
        self.fired = []
        self.leaked = 0

    def ensure_tmp(self):
        if getattr(self, "_pid", None) != os.getpid():  # forked child: never share the parent's directory
            self.tmp = None
            self._pid = os.getpid()
        if self.tmp is None or not os.path.isdir(self.tmp):
            from .. import core

            self.tmp = tempfile.mkdtemp(prefix="cbc-%d-" % os.getpid(), dir=core.scratch_base())
        return self.tmp

    def cleanup(self):
        if getattr(self, "_pid", None) != os.getpid():
            return
        if self.tmp and os.path.isdir(self.tmp):
            shutil.rmtree(self.tmp, ignore_errors=True)
        self.tmp = None


WORLD = World()


def _sol_path(args):
    for i, a in enumerate(args):
        if a in ("-solution", "solution") and i + 1 < len(args):
            return args[i + 1]
    return None


class _SimPopen(object):
    def __init__(self, args, fault, rec, **kw):
        self.args, self.fault, self.rec, self.kw = args, fault, rec, kw
        self.returncode = None

    def wait(self, timeout=None):
        f = self.fault or {}
        kind = f.get("kind")
        sol = _sol_path(self.args)
        if kind in ("exit_before", "killed_before"):
            self.rec["fired"] = True
            self.returncode = 1 if kind == "exit_before" else -9
            return self.returncode
        if kind == "tmpdir_gone":
            shutil.rmtree(os.path.dirname(sol), ignore_errors=True)
            self.rec["fired"] = True
        import time as _time

        t_start = _time.time()
        p = _real_subprocess.Popen(self.args, **self.kw)
        try:
            rc = p.wait(timeout=SOLVER_WALL_CAP_S)
            self.rec["elapsed"] = _time.time() - t_start  # never part of a history digest
        except _real_subprocess.TimeoutExpired:
            # a solver that does not come back is killed by the operator (the simulator): to chempy this is a
            # solver process that died (-9).  Healthy instances take milliseconds to a few seconds.
            p.kill()
            p.wait()
            rc = -9
            self.rec["fired"] = True
            self.rec["solver_hung_killed"] = True
        except BaseException:
            p.kill()  # the run's wall cap fired while the solver was running: do not leave it behind
            p.wait()
            raise
        self.rec["rc"] = rc
        data = None
        if sol and os.path.exists(sol):
            with open(sol, "rb") as fh:
                data = fh.read()
        self.rec["sol_size"] = len(data) if data is not None else None
        new = data
        if data is not None:
            if kind == "sol_missing":
                os.remove(sol)
                new = None
                self.rec["fired"] = True
            elif kind == "sol_empty":
                new = b""
            elif kind == "sol_torn":
                at = int(f["at"])
                if at < len(data):
                    new = data[:at]
            elif kind == "sol_stale":
                other = [x for x in WORLD.prev_sols if x != data]
                if other:
                    new = other[-1]
            elif kind == "sol_header":
                lines = data.split(b"\n")
                lines[0] = f.get("text", "Infeasible - objective value 0.00000000").encode()
                new = b"\n".join(lines)
            elif kind == "sol_noise":
                new = _map_values(data, lambda name, v: v + float(f.get("sign", -1)) * 1e-9 if name.startswith("X") else v)
            elif kind == "sol_perturb":
                tgt = "X%07d" % int(f.get("var", 0))
                new = _map_values(data, lambda name, v: v + float(f.get("d", 1)) if name == tgt else v)
            elif kind == "sol_set":
                vals = [float(v) for v in f.get("values", [])]
                new = _map_values(data, lambda name, v: (vals[int(name[1:])] if name.startswith("X") and int(name[1:]) < len(vals) else v))
                if f.get("text"):
                    lines = new.split(b"\n")
                    lines[0] = f["text"].encode()
                    new = b"\n".join(lines)
            elif kind == "sol_scale":
                m = float(f.get("m", 2))
                new = _map_values(data, lambda name, v: v * m if name.startswith("X") else v)
            elif kind == "sol_drop_row":
                tgt = ("X%07d" % int(f.get("var", 0))).encode()
                new = b"\n".join(ln for ln in data.split(b"\n") if tgt not in ln.split())
            if new is not None and new != data:
                with open(sol, "wb") as fh:
                    fh.write(new)
                self.rec["fired"] = True
        if data is not None and data not in WORLD.prev_sols:
            WORLD.prev_sols.append(data)
            del WORLD.prev_sols[:-4]
        if kind == "exit_after":
            rc = 1
            self.rec["fired"] = True
        elif kind == "killed_after":
            rc = -9
            self.rec["fired"] = True
        self.returncode = rc
        return rc


def _map_values(data, fn):
    out = []
    for i, ln in enumerate(data.decode().split("\n")):
        parts = ln.split()
        if i == 0 or len(parts) < 4:
            out.append(ln)
            continue
        off = 1 if parts[0] == "**" else 0
        name = parts[off + 1]
        try:
            v = float(parts[off + 2])
        except ValueError:
            out.append(ln)
            continue
        nv = fn(name, v)
        if nv != v:
            parts[off + 2] = repr(nv)
            out.append("%s %7s %s %15s %23s" % ("**" if off else "  ", parts[off], parts[off + 1], parts[off + 2], parts[off + 3]))
        else:
            out.append(ln)
    return "\n".join(out).encode()


def install():
    """Bind pulp.PULP_CBC_CMD to SimCBC (idempotent).  Returns the class."""
    import pulp
    import pulp.apis.coin_api as coin_api

    if getattr(pulp.PULP_CBC_CMD, "_verif_sim", False):
        return pulp.PULP_CBC_CMD
    Real = pulp.PULP_CBC_CMD

    class SimCBC(Real):
        _verif_sim = True
        _verif_real = Real

        def __init__(self, *a, **kw):
            fault = WORLD.plan.get(WORLD.n) or {}
            if fault.get("kind") == "relax_lp":
                kw["mip"] = False
            elif fault.get("kind") == "stop_nodes0":
                kw["maxNodes"] = 0
            Real.__init__(self, *a, **kw)
            self.tmpDir = WORLD.ensure_tmp()

        def solve_CBC(self, lp, use_mps=True):
            idx = WORLD.n
            WORLD.n += 1
            fault = WORLD.plan.get(idx)
            kind = (fault or {}).get("kind")
            rec = {"inv": idx, "fault": kind, "fired": False, "nvars": len(lp.variables())}
            WORLD.log.append(rec)
            if kind in ("relax_lp", "stop_nodes0"):
                rec["fired"] = True
            if kind == "exe_missing":
                rec["fired"] = True
                self.executable = lambda path: None
            if kind in ("mps_enospc", "mps_eio", "mps_torn"):
                real_write = lp.writeMPS

                def faulty_write(filename, *a, **kw):
                    res = real_write(filename, *a, **kw)
                    with open(filename, "rb") as fh:
                        data = fh.read()
                    rec["fired"] = True
                    if kind == "mps_torn":
                        lines = data.split(b"\n")
                        keep = max(1, min(int(fault.get("line", 5)), len(lines) - 1))
                        with open(filename, "wb") as fh:
                            fh.write(b"\n".join(lines[:keep]) + b"\n")
                        return res
                    at = int(fault.get("at", 0)) if kind == "mps_enospc" else 0
                    with open(filename, "wb") as fh:
                        fh.write(data[:at])
                    raise OSError(errno.ENOSPC if kind == "mps_enospc" else errno.EIO, os.strerror(errno.ENOSPC if kind == "mps_enospc" else errno.EIO), filename)

                lp.writeMPS = faulty_write
            shim = types.SimpleNamespace(**{k: getattr(_real_subprocess, k) for k in dir(_real_subprocess) if not k.startswith("__")})
            shim.Popen = lambda args, **kw: _SimPopen(args, fault, rec, **kw)
            saved = coin_api.subprocess
            coin_api.subprocess = shim
            try:
                return Real.solve_CBC(self, lp, use_mps=use_mps)
            finally:
                coin_api.subprocess = saved
                if "writeMPS" in lp.__dict__:
                    del lp.__dict__["writeMPS"]
                tmp = WORLD.tmp
                if tmp and os.path.isdir(tmp):
                    left = os.listdir(tmp)
                    if left:
                        WORLD.leaked += len(left)
                        for fn in left:
                            try:
                                os.remove(os.path.join(tmp, fn))
                            except OSError:
                                pass
                if rec["fired"]:
                    WORLD.fired.append(kind or ("solver_hung_killed" if rec.get("solver_hung_killed") else "unplanned"))

    SimCBC.__name__ = "PULP_CBC_CMD"
    pulp.PULP_CBC_CMD = SimCBC
    coin_api.PULP_CBC_CMD = SimCBC
    return SimCBC


def uninstall():
    import pulp
    import pulp.apis.coin_api as coin_api

    cur = pulp.PULP_CBC_CMD
    if getattr(cur, "_verif_sim", False):
        pulp.PULP_CBC_CMD = cur._verif_real
        coin_api.PULP_CBC_CMD = cur._verif_real
