#!/venv/bin/python
"""Determinism self-test (DESIGN.md 2.6): for N runs per property compare the per-run history digests obtained
(a) by the fork pool with 16 workers, (b) by the fork pool with 1 worker, (c) twice in fresh interpreters, and the
outcome digests under PYTHONHASHSEED=1 and 4242.  Any difference is printed; exit 1 if there is one.
usage: selftest/determinism.py [C02,C08,C11,C15] [N] [seed]"""
import json, os, subprocess, sys
HERE = os.path.dirname(os.path.dirname(os.path.abspath(__file__)))
props = (sys.argv[1] if len(sys.argv) > 1 else "C02,C08,C11,C15").split(",")
N = int(sys.argv[2]) if len(sys.argv) > 2 else 200
seed = int(sys.argv[3]) if len(sys.argv) > 3 else 0

CODE = r'''
import sys, json, os
sys.path[:0] = [os.environ.get("VERIF_REPO", "/repo"), %r]
from sim import driver, core
prop, seed, n, workers = sys.argv[1], int(sys.argv[2]), int(sys.argv[3]), int(sys.argv[4])
mod = driver.load_mod(prop)
core.scratch_base()
if workers == 0:
    if hasattr(mod, "worker_init"): mod.worker_init()
    out = {}
    for r in range(n):
        res = driver._finish(core.run_case_guarded(mod.execute, mod.gen_case(seed, r, "quick"), timeout_s=mod.RUN_TIMEOUT_S))
        out[r] = (res["digest"], res["outcome_digest"])
else:
    if hasattr(mod, "worker_init"): mod.worker_init()
    res = driver.run_batch(prop, seed, list(range(n)), "quick", workers, keep_first=0)
    out = {r["run"]: (r["digest"], r["outcome_digest"]) for r in res}
print(json.dumps(out))
''' % HERE


def run(prop, n, workers, hashseed):
    env = dict(os.environ, PYTHONHASHSEED=str(hashseed), VERIF_REEXEC="1", PYTHONDONTWRITEBYTECODE="1")
    env.pop("PYNEQSYS_SOLVER", None)
    p = subprocess.run(["/venv/bin/python", "-c", CODE, prop, str(seed), str(n), str(workers)], env=env, stdout=subprocess.PIPE, stderr=subprocess.PIPE)
    if p.returncode != 0:
        print(p.stderr.decode()[-2000:])
        raise SystemExit(2)
    return {int(k): tuple(v) for k, v in json.loads(p.stdout.decode().strip().splitlines()[-1]).items()}


bad = 0
for prop in props:
    n = N if prop in ("C11", "C15") else max(16, N // 8)
    ref = run(prop, n, 16, 0)
    variants = {"pool-1-worker": run(prop, n, 1, 0), "fresh-serial-a": run(prop, n, 0, 0), "fresh-serial-b": run(prop, n, 0, 0)}
    for name, got in variants.items():
        diff = [r for r in ref if got.get(r, (None,))[0] != ref[r][0]]
        print("%s %-16s runs=%d history-digest differences=%d %s" % (prop, name, n, len(diff), diff[:5]))
        bad += len(diff)
    for hs in (1, 4242):
        got = run(prop, n, 16, hs)
        diff = [r for r in ref if got.get(r, (None, None))[1] != ref[r][1]]
        print("%s hashseed=%-7d runs=%d outcome-digest differences=%d %s" % (prop, hs, n, len(diff), diff[:5]))
        bad += len(diff)
print("determinism self-test: %d differences" % bad)
sys.exit(1 if bad else 0)
