# -*- coding: utf-8 -*-
"""C02 - balancing returns only balanced, positive, canonical coefficients or refuses.

Seeded workloads generated *from their answer* (ground truth by exact Fraction algebra,
compositions from formula derivation trees) are balanced through the public API in all
modes; in the 'smallest integers' mode and the duplicate-elimination search the answer
comes from an external solver process through two temp files, and the simulator (SimCBC,
sim/seams/cbc.py) enumerates solver/file faults at every solver invocation of the call.
See DESIGN.md section 3.1.
"""
from __future__ import annotations

import copy
import os
import warnings
from collections import OrderedDict
from fractions import Fraction
from functools import reduce
from math import gcd

from .. import core
from ..models import composition as C
from ..models import nullspace as NS
from ..seams import cbc

PROPERTY = "C02"
LEVEL = "fault_enumeration"
QUICK_RUNS = 288
THOROUGH_BUDGET_S = 1500
THOROUGH_BATCH = 640
CROSS_RUNS_QUICK = 24
CROSS_RUNS_THOROUGH = 64
RUN_TIMEOUT_S = 600

MODES = {"true": True, "false": False, "none": None, "one": 1}  # 1 is the deprecated spelling of None
# faults after which the solver has visibly delivered nothing: an answer given anyway must still be the minimal one
SLOW_SOLVER_S = 6.0
HARD_FAILURES = ("exe_missing", "exit_before", "killed_before", "exit_after", "killed_after", "sol_missing", "sol_empty",
                 "mps_enospc", "mps_eio", "tmpdir_gone")
Z2SYM = {z: s for s, z in C.ELEMENTS.items()}


def worker_init():
    cbc.install()
    os.environ["TMPDIR"] = cbc.WORLD.ensure_tmp()


# ----------------------------------------------------------------------------- generation


def _coprime_vector(rw, n):
    while True:
        v = [rw.choice([1, 1, 1, 2, 2, 3, 3, 4, 5, 6]) for _ in range(n)]
        if reduce(gcd, v) == 1:
            return v


def _balanced_compositions(rw, x, nr, elements, with_charge):
    """Compositions (list of dicts z->int, 0->charge) with sum_reac x_i c_i == sum_prod x_j c_j."""
    n = len(x)
    for _ in range(400):
        comps = [dict() for _ in range(n)]
        ok = True
        for z in elements:
            for _try in range(60):
                a = [rw.choice([0, 0, 1, 1, 2, 3, 4]) for _ in range(nr)]
                T = sum(xi * ai for xi, ai in zip(x[:nr], a))
                if T == 0:
                    continue
                b = [rw.choice([0, 0, 1, 1, 2, 3]) for _ in range(n - nr - 1)]
                part = sum(xj * bj for xj, bj in zip(x[nr:-1], b))
                restv = T - part
                if restv < 0 or restv % x[-1] != 0:
                    continue
                b.append(restv // x[-1])
                for i, v in enumerate(a + b):
                    if v:
                        comps[i][z] = v
                break
            else:
                ok = False
                break
        if not ok:
            continue
        if with_charge:
            for _try in range(60):
                a = [rw.choice([0, 0, 0, 1, -1, 2, -2] + ([10, -12, 11] if rw.random() < 0.15 else [])) for _ in range(nr)]
                T = sum(xi * ai for xi, ai in zip(x[:nr], a))
                b = [rw.choice([0, 0, 1, -1, 2]) for _ in range(n - nr - 1)]
                part = sum(xj * bj for xj, bj in zip(x[nr:-1], b))
                restv = T - part
                if restv % x[-1] != 0 or abs(restv // x[-1]) > 14:
                    continue
                b.append(restv // x[-1])
                if not any(a + b):
                    continue
                for i, v in enumerate(a + b):
                    if v:
                        comps[i][0] = v
                break
            else:
                continue
        if any(not any(z != 0 for z in c) for c in comps):
            continue  # every species needs at least one element here
        keyset = {tuple(sorted(c.items())) for c in comps}
        if len(keyset) != n:
            continue
        return comps
    return None


def gen_case(seed, run, tier):
    rw = core.stream(seed, "c02/workload", run)
    rs = core.stream(seed, "c02/swarm", run)
    rf = core.stream(seed, "c02/faults", run)
    variant = rs.choice(["single", "single", "single", "multi", "multi", "wrong_side", "wrong_side", "missing_component",
                         "superfluous", "full_rank", "dup_spectator", "dup_shared", "dup_two", "fractional", "electron", "empty_species"])
    if rs.random() < 0.05:
        variant = "big"  # more than ten species: two-digit variable names in the integer program
    elif rs.random() < 0.06:
        variant = "one_sided"  # a component present on one side only, in several species of an under-determined reaction
    elif rs.random() < 0.08:
        variant = "det"  # random compositions with subscripts up to 9: the unique ray has coefficients in the hundreds
    for _attempt in range(200):
        n = rw.randint(2, 6) if variant not in ("multi", "one_sided") else rw.randint(4, 6)
        if variant == "big":
            n = rw.randint(11, 13)
        nr = rw.randint(1, n - 1)
        x = _coprime_vector(rw, n)
        if variant == "big":
            x = [min(v, 3) for v in x]
            if reduce(gcd, x) != 1:
                x[0] = 1
        nel = rw.randint(1, 4) if variant not in ("multi", "one_sided") else rw.randint(1, 2)
        if variant == "big":
            nr = rw.randint(4, n - 4)
            nel = rw.randint(n - 4, n - 2)
        if rw.random() < 0.5 and variant != "big":
            common = [1, 8, 6, 7, 11, 16, 17, 20, 26, 29]
            elements = sorted(set([1, 8][: max(1, min(2, nel))] + rw.sample(common, max(0, nel - 2))))
        else:
            elements = sorted(rw.sample(sorted(Z2SYM), nel))
        with_charge = rw.random() < 0.35
        comps = _balanced_compositions(rw, x, nr, elements, with_charge)
        if comps is None:
            continue
        break
    else:
        raise core.HarnessError("could not generate a balanced case")
    if variant == "det":
        for _attempt in range(300):
            n = rw.randint(3, 5)
            elements = sorted(rw.sample(sorted(Z2SYM), n - 1))
            comps = [{z: rw.randint(0, 9) for z in elements} for _ in range(n)]
            comps = [{z: v for z, v in c.items() if v} for c in comps]
            if any(not c for c in comps):
                continue
            A_ = [[Fraction(c.get(z, 0)) for c in comps] for z in elements]
            basis_ = NS.nullspace(A_, n)
            if len(basis_) != 1:
                continue
            v_ = NS.primitive(basis_[0])
            if any(t == 0 for t in v_) or all(t > 0 for t in v_) or all(t < 0 for t in v_) or max(abs(t) for t in v_) > 2000:
                continue
            order_ = [i for i in range(n) if v_[i] < 0] + [i for i in range(n) if v_[i] > 0]
            comps = [comps[i] for i in order_]
            nr = sum(1 for t in v_ if t < 0)
            x = [abs(v_[i]) for i in order_]
            with_charge = False
            break
        else:
            raise core.HarnessError("could not generate a determinant-type case")
    formula_mode = rs.random() < 0.65 and variant not in ("fractional", "electron", "empty_species")
    species = []
    used = set()
    for i, c in enumerate(comps):
        if formula_mode:
            for _ in range(20):
                tree = C.tree_for(c, rw, Z2SYM)
                key = C.render(tree)
                truth = C.tree_composition(tree)
                if truth != {z: v for z, v in c.items() if v}:
                    raise core.HarnessError("formula generator self-check failed: %s %s %s" % (key, truth, c))
                if key not in used:
                    break
            else:
                key = "S%d" % i
                formula_mode = False
            used.add(key)
            species.append({"key": key, "comp": {str(z): v for z, v in c.items()}})
        else:
            species.append({"key": "S%d" % i, "comp": {str(z): v for z, v in c.items()}})
    if not formula_mode:
        for i, sp in enumerate(species):
            sp["key"] = "S%d" % i
    reac = [s["key"] for s in species[:nr]]
    prod = [s["key"] for s in species[nr:]]
    dup = False
    # ---- variants derived from the feasible base case
    if variant == "wrong_side" and n >= 3:
        if len(reac) >= 2 and (len(prod) < 2 or rw.random() < 0.5):
            k = rw.choice(reac)
            reac.remove(k)
            prod.append(k)
        elif len(prod) >= 2:
            k = rw.choice(prod)
            prod.remove(k)
            reac.append(k)
    elif variant == "one_sided":
        free = [z for z in sorted(Z2SYM) if z not in elements]
        z = rw.choice(free)
        side = species[:nr] if (nr >= 2 and rw.random() < 0.5) or len(species) - nr < 2 else species[nr:]
        chosen = rw.sample(side, min(len(side), rw.randint(2, 3))) if len(side) >= 2 else side
        for sp in chosen:
            sp["comp"][str(z)] = rw.randint(1, 2)
            if formula_mode:
                tree = C.tree_for({int(k): v for k, v in sp["comp"].items()}, rw, Z2SYM)
                old = sp["key"]
                sp["key"] = C.render(tree)
                reac = [sp["key"] if k == old else k for k in reac]
                prod = [sp["key"] if k == old else k for k in prod]
    elif variant == "missing_component":
        free = [z for z in sorted(Z2SYM) if z not in elements]
        z = rw.choice(free)
        sp = rw.choice(species)
        sp["comp"][str(z)] = rw.randint(1, 2)
        if formula_mode:
            tree = C.tree_for({int(k): v for k, v in sp["comp"].items()}, rw, Z2SYM)
            old = sp["key"]
            sp["key"] = C.render(tree)
            reac = [sp["key"] if k == old else k for k in reac]
            prod = [sp["key"] if k == old else k for k in prod]
    elif variant == "superfluous":
        c = {z: rw.randint(1, 3) for z in rw.sample(elements, rw.randint(1, len(elements)))}
        key = "S%d" % n
        if formula_mode:
            key = C.render(C.tree_for(c, rw, Z2SYM))
        if key not in reac + prod:
            species.append({"key": key, "comp": {str(z): v for z, v in c.items()}})
            (reac if rw.random() < 0.5 else prod).append(key)
    elif variant == "full_rank":
        for sp in species:
            for z in elements:
                if rw.random() < 0.5:
                    sp["comp"][str(z)] = rw.randint(1, 5)
        if formula_mode:
            ren = {}
            for sp in species:
                tree = C.tree_for({int(k): v for k, v in sp["comp"].items()}, rw, Z2SYM)
                ren[sp["key"]] = C.render(tree)
                sp["key"] = ren[sp["key"]]
            reac = [ren[k] for k in reac]
            prod = [ren[k] for k in prod]
            if len(set(reac + prod)) != len(reac + prod):
                formula_mode = False
                for i, sp in enumerate(species):
                    old = sp["key"]
                    sp["key"] = "S%d" % i
                reac = [s["key"] for s in species[:nr]]
                prod = [s["key"] for s in species[nr:]]
    elif variant == "dup_spectator":
        c = {z: rw.randint(1, 2) for z in rw.sample(elements, 1)}
        key = "S%d" % n
        if formula_mode:
            key = C.render(C.tree_for(c, rw, Z2SYM))
        if key not in reac + prod:
            species.append({"key": key, "comp": {str(z): v for z, v in c.items()}})
            reac.append(key)
            prod.append(key)
            dup = True
    elif variant == "dup_two":
        c = {z: rw.randint(1, 2) for z in rw.sample(elements, 1)}
        key = "A%d" % n  # sorts before the S-keys of the abstract mode
        if formula_mode:
            key = C.render(C.tree_for(c, rw, Z2SYM))
        if key not in reac + prod:
            species.append({"key": key, "comp": {str(z): v for z, v in c.items()}})
            reac.append(key)
            prod.append(key)
            if rw.random() < 0.5:
                prod.append(rw.choice([k for k in reac if k != key]))
            else:
                reac.append(rw.choice([k for k in prod if k != key]))
            dup = True
    elif variant == "dup_shared":
        if rw.random() < 0.5:
            prod.append(rw.choice(reac))
        else:
            reac.append(rw.choice(prod))
        dup = True
        if rw.random() < 0.5 and len(reac) >= 2:
            cand = [k for k in reac if k not in prod]
            if cand:
                prod.append(rw.choice(cand))
    elif variant == "fractional":
        i = rw.randrange(len(species))
        div = rw.choice([2.0, 2.0, 4.0, 5.0, 10.0, 10.0, 8.0])
        species[i]["comp"] = {z: (v / div if z != "0" else v) for z, v in species[i]["comp"].items()}
    elif variant == "empty_species":
        species.append({"key": "hv" if not formula_mode else "S%d" % n, "comp": {}})
        (reac if rw.random() < 0.5 else prod).append(species[-1]["key"])
    elif variant == "electron":
        # add a charge-only species (the electron) and re-balance charge with it
        species.append({"key": "e-", "comp": {"0": -1}})
        (reac if rw.random() < 0.5 else prod).append("e-")
        sp = rw.choice(species[:-1])
        sp["comp"]["0"] = sp["comp"].get("0", 0) + rw.choice([-2, -1, 1, 2])
    if len(set(reac)) != len(reac) or len(set(prod)) != len(prod):
        reac, prod = list(OrderedDict.fromkeys(reac)), list(OrderedDict.fromkeys(prod))
    container = rs.choice(["set", "set", "list", "permuted", "tuple"])
    if container == "permuted":
        rw.shuffle(reac)
        rw.shuffle(prod)
    subs = "none" if formula_mode else rs.choice(["explicit", "explicit", "factory"])
    if formula_mode and rs.random() < 0.3:
        subs = rs.choice(["string", "explicit", "factory"])
    calls = []
    if variant == "big":
        formula_mode = formula_mode  # keys as generated
        calls.append({"mode": "none", "dup": False})
        calls.append({"mode": "false", "dup": False})
    elif dup:
        calls.append({"mode": "none", "dup": True})
        calls.append({"mode": "none", "dup": False})
    else:
        for m in ("true", "false", "none") + (("one",) if rs.random() < 0.15 else ()):
            calls.append({"mode": m, "dup": False})
            if rs.random() < 0.2:
                calls[-1]["psym"] = rs.choice(["plain", "posint", "named"])
            if rs.random() < 0.12:
                calls[-1]["dup"] = True  # allow_duplicates=True although nothing is duplicated
    if rf.random() < 0.35:
        for c in calls:
            if c["mode"] == "none":
                c["cold"] = [rf.choice([{"inv": 0, "kind": "sol_torn", "at": rf.randint(60, 200)}, {"inv": 0, "kind": "sol_drop_row", "var": 0},
                                        {"inv": 0, "kind": "sol_perturb", "var": 1, "d": 1}, {"inv": 0, "kind": "sol_empty"},
                                        {"inv": 0, "kind": "killed_after"}, {"inv": 0, "kind": "sol_scale", "m": 2}])]
                break
    enum = {"torn": 24 if run % 10 else "all", "pairs": 0 if tier == "quick" else 6, "fseed": rf.randrange(1 << 30)}
    if tier == "thorough":
        enum["torn"] = "all" if run % 3 == 0 else 64
        enum["later"] = 40
    if variant == "big":
        enum["torn"] = 2
        enum["minimal"] = True
    case = {"property": PROPERTY, "variant": variant, "species": species, "reac": reac, "prod": prod,
            "container": container, "subs": subs, "calls": calls, "enumerate": enum}
    if variant == "big":
        case["witness"] = {sp["key"]: xi for sp, xi in zip(species, x)}
    if rs.random() < (0.5 if subs == "factory" else 0.15) and variant != "big":
        case["cold_decoy"] = True
    if subs == "explicit" and rs.random() < 0.5:
        case["share_mapping"] = True
    if subs == "explicit":
        case["subst_style"] = rs.choice(["plain", "plain", "charge_arg", "other_names"])
    return case


# ----------------------------------------------------------------------------- ground truth


def _fr(v):
    if isinstance(v, float):
        return Fraction(v).limit_denominator(1000)
    return Fraction(v)


def truth_for(case, reac, prod):
    comp = {s["key"]: {int(z): _fr(v) for z, v in s["comp"].items() if v} for s in case["species"]}
    keys = list(reac) + list(prod)
    cks = sorted({z for k in keys for z in comp[k]})
    A = [[(-1 if k in reac else 1) * comp[k].get(z, Fraction(0)) for k in keys] for z in cks]
    basis = NS.nullspace(A, len(keys))
    d = len(basis)
    one_sided = False
    for z in cks:
        rv = [comp[k].get(z, 0) for k in reac if comp[k].get(z, 0) != 0]
        pv = [comp[k].get(z, 0) for k in prod if comp[k].get(z, 0) != 0]
        for mine, other in ((rv, pv), (pv, rv)):
            if not mine and other and not (any(v > 0 for v in other) and any(v < 0 for v in other)):
                one_sided = True
    t = {"keys": keys, "A": A, "d": d, "comp": comp, "cks": cks, "one_sided": one_sided, "basis": basis}
    if d == 0:
        t.update(feasible=False, klass="trivial_only")
    elif d == 1:
        ray = NS.primitive(basis[0])
        if all(v < 0 for v in ray):
            ray = [-v for v in ray]
        t["ray"] = ray
        if any(v == 0 for v in ray):
            t.update(feasible=False, klass="forced_zero")
        elif all(v > 0 for v in ray):
            t.update(feasible=True, klass="single_ray")
        else:
            t.update(feasible=False, klass="mixed_sign")
    else:
        wit = case.get("witness")
        if wit and all(k in wit for k in keys) and all(wit[k] > 0 for k in keys) and NS.is_solution(A, [wit[k] for k in keys]):
            feas = True  # a positive solution is known by construction: no need for the (exponential) elimination
        elif d > 7:
            raise core.HarnessError("cone of dimension %d without a witness: not classified" % d)
        else:
            feas = NS.strictly_positive_feasible(basis)
        t.update(feasible=feas, klass="cone_d%d" % min(d, 4) if feas else "cone_infeasible")
    return t


# ----------------------------------------------------------------------------- one call


def _mk_args(case, call, shared=None):
    from chempy import Substance

    reac, prod = list(case["reac"]), list(case["prod"])
    cont = case["container"]
    if cont == "set":
        r, p = set(reac), set(prod)
    elif cont == "tuple":
        r, p = tuple(reac), tuple(prod)
    else:
        r, p = list(reac), list(prod)
    kw = {"underdetermined": MODES[call["mode"]]}
    if call.get("dup"):
        kw["allow_duplicates"] = True
    if call.get("psym"):
        import sympy

        kw["parametric_symbols"] = {
            "plain": lambda: sympy.numbered_symbols("p"),
            "posint": lambda: sympy.numbered_symbols("q", start=3, integer=True, positive=True),
            "named": lambda: iter(sympy.symbols("a0:40")),
        }[call["psym"]]()
    if case["subs"] == "explicit":
        if shared is not None and "mapping" in shared:
            kw["substances"] = shared["mapping"]  # the caller keeps ONE mapping and passes it to every call
        else:
            style = case.get("subst_style", "plain")

            def mk(sp, i):
                comp = {int(z): v for z, v in sp["comp"].items() if v}
                name = sp["key"]
                if style == "other_names":  # the mapping key is the caller's label, the Substance carries another name
                    name = None if i % 2 else "label-%d" % i
                if style == "charge_arg" and 0 in comp:  # net charge given through the charge= argument
                    q = comp.pop(0)
                    return Substance(name, charge=q, composition=comp)
                return Substance(name, composition=comp)

            kw["substances"] = OrderedDict((sp["key"], mk(sp, i)) for i, sp in enumerate(case["species"]))
            if shared is not None:
                shared["mapping"] = kw["substances"]
                shared["snapshot"] = [(k, sorted(v.composition.items())) for k, v in kw["substances"].items()]
    elif case["subs"] == "string":
        kw["substances"] = " ".join(s["key"] for s in case["species"])
    elif case["subs"] == "factory":
        table = {s["key"]: {int(z): v for z, v in s["comp"].items() if v} for s in case["species"]}
        kw["substance_factory"] = lambda key: Substance(key, composition=dict(table[key]))
    return r, p, kw


def do_call(case, call, faults, shared=None):
    """Run one balance_stoichiometry call under the given fault plan.  Returns a record."""
    from chempy import balance_stoichiometry

    cbc.WORLD.reset({f["inv"]: f for f in faults})
    r, p, kw = _mk_args(case, call, shared)
    rec = {"mode": call["mode"], "dup": bool(call.get("dup")), "faults": [dict(f) for f in faults], "psym": call.get("psym")}
    with warnings.catch_warnings():
        warnings.simplefilter("ignore")
        try:
            res = balance_stoichiometry(r, p, **kw)
        except Exception as ex:
            rec["outcome"] = "raise:" + core.exc_tag(ex)
            rec["exc_is_valueerror"] = isinstance(ex, ValueError)
            res = None
    rec["n_inv"] = cbc.WORLD.n
    rec["inv_log"] = [dict(x) for x in cbc.WORLD.log]
    rec["fired"] = list(cbc.WORLD.fired)
    rec["leaked"] = cbc.WORLD.leaked
    if res is not None:
        rec["outcome"] = "ok"
        rec["_res"] = res
    if shared is not None and "mapping" in shared:
        now = [(k, sorted(v.composition.items())) for k, v in shared["mapping"].items()]
        # entries removed or compositions altered corrupt the caller's data for every later call; additions are tolerated
        nowd = dict(now)
        rec["caller_mapping_changed"] = any(k not in nowd or nowd[k] != comp for k, comp in shared["snapshot"])
        if rec["caller_mapping_changed"]:
            rec["caller_mapping_detail"] = "%s -> %s" % ([k for k, _ in shared["snapshot"]], [k for k, _ in now])
            shared.pop("mapping")  # report once; next call builds a new one
    return rec


def _coef_repr(v):
    try:
        import sympy

        if isinstance(v, sympy.Basic):
            return str(v)
    except ImportError:
        pass
    return repr(v)


def judge(case, call, rec, faulted):
    """Oracle.  Returns list of violations for one call record."""
    import sympy

    out = []
    mode = "none" if call["mode"] == "one" else call["mode"]
    dup = bool(call.get("dup"))
    reac, prod = list(case["reac"]), list(case["prod"])
    shared = [k for k in reac if k in prod]
    if dup and not shared:
        dup = False  # the flag must not matter when no species is on both sides
    sigbase = {"mode": mode, "dup": dup}
    if shared and not dup:
        # species on both sides without allow_duplicates: must be refused
        if rec["outcome"] == "ok":
            out.append(core.violation("answered_duplicates", "returned although species %s are on both sides" % shared, sigbase))
        elif not rec.get("exc_is_valueerror") and not faulted:
            out.append(core.violation("wrong_exception", "species on both sides refused with %s" % rec["outcome"], dict(sigbase, exc=rec["outcome"][6:])))
        return out
    if rec["outcome"] != "ok":
        if faulted:
            return out  # any refusal is acceptable while faults flow
        if dup:
            if set(reac) == set(prod):
                return out  # documented refusal: "reactants and products identical"
            base_feasible = _dup_feasible(case)
            if base_feasible:
                out.append(core.violation("refused_feasible", "duplicate search raised %s although dropping duplicates leaves a balanced reaction" % rec["outcome"], dict(sigbase, exc=rec["outcome"][6:])))
            return out
        t = truth_for(case, reac, prod)
        if t["feasible"] and mode == "true" and t["d"] >= 2:
            # the statement promises an answer for single rays (all modes) and for the smallest-integers mode;
            # a refusal of the parametric mode on a multi-dimensional cone is observed, not asserted
            rec["probe"] = "mode_true_refused_feasible_cone"
            return out
        if t["feasible"] and mode == "false" and t["d"] >= 2:
            # documented: underdetermined=False refuses reactions whose solutions are not a single ray
            if not rec.get("exc_is_valueerror"):
                out.append(core.violation("wrong_exception", "under-determined system refused with %s" % rec["outcome"], dict(sigbase, truth=t["klass"], exc=rec["outcome"][6:])))
            return out
        if t["feasible"]:
            out.append(core.violation("refused_feasible", "raised %s but %s has the positive solution class %s" % (rec["outcome"], t["keys"], t["klass"]), dict(sigbase, truth=t["klass"], exc=rec["outcome"][6:])))
        elif not rec.get("exc_is_valueerror"):
            out.append(core.violation("wrong_exception", "no positive assignment exists (%s) but the refusal is %s, not a ValueError" % (t["klass"], rec["outcome"]), dict(sigbase, truth=t["klass"], exc=rec["outcome"][6:])))
        return out
    # ---- returned
    res = rec["_res"]
    ok_shape = isinstance(res, tuple) and len(res) == 2 and all(hasattr(x, "items") for x in res)
    if not ok_shape:
        out.append(core.violation("bad_shape", "returned %r" % (type(res).__name__,), sigbase))
        return out
    rr, pp = res
    rkeys, pkeys = list(rr.keys()), list(pp.keys())
    # keys
    if dup:
        both = set(rkeys) & set(pkeys)
        invented = [k for k in rkeys if k not in reac] + [k for k in pkeys if k not in prod]
        missing = [k for k in reac + prod if k not in shared and k not in rkeys and k not in pkeys]
        if both or invented or missing:
            out.append(core.violation("keys_wrong", "duplicates mode: both=%s invented=%s missing=%s" % (sorted(both), invented, missing), sigbase))
            return out
        eff_reac, eff_prod = rkeys, pkeys
    else:
        if sorted(rkeys) != sorted(reac) or sorted(pkeys) != sorted(prod):
            out.append(core.violation("keys_wrong", "keys %s -> %s for species %s -> %s" % (rkeys, pkeys, reac, prod), sigbase))
            return out
        eff_reac, eff_prod = reac, prod
    t = truth_for(case, eff_reac, eff_prod)
    sig = dict(sigbase, truth=t["klass"], one_sided_component=t["one_sided"])
    coefs = [rr[k] for k in eff_reac] + [pp[k] for k in eff_prod]
    numeric = all(_is_number(c) for c in coefs)
    if mode in ("false", "none") and not numeric:
        out.append(core.violation("nonpositive_coeff", "numeric mode returned non-numeric coefficients %s" % [_coef_repr(c) for c in coefs], sig))
        return out
    # balance, exactly (identically in free parameters)
    comp = t["comp"]
    for z in t["cks"]:
        tot = sympy.Integer(0)
        for pos_, (k, c) in enumerate(zip(eff_reac + eff_prod, coefs)):
            f = comp[k].get(z, Fraction(0))
            if f:
                sgn = -1 if pos_ < len(eff_reac) else 1
                tot += sgn * sympy.Rational(f.numerator, f.denominator) * sympy.sympify(c)
        if sympy.expand(tot) != 0:
            out.append(core.violation("returned_unbalanced", "component %s sums to %s with %s -> %s" % (z, tot, dict(rr), dict(pp)), sig))
            return out
    if numeric:
        ints = all(_is_int(c) for c in coefs)
        if not ints or any(int(c) <= 0 for c in coefs):
            klass = "answered_infeasible" if not t["feasible"] else "nonpositive_coeff"
            out.append(core.violation(klass, "coefficients %s for %s (truth: %s)" % ([_coef_repr(c) for c in coefs], t["keys"], t["klass"]), sig))
            return out
        iv = [int(c) for c in coefs]
        if reduce(gcd, iv) != 1:
            out.append(core.violation("not_coprime", "coefficients %s share a factor" % iv, sig))
        if not t["feasible"]:
            # balanced positive integers exist although the exact model says none do: model bug
            raise core.HarnessError("ground truth says infeasible but %s balances %s" % (iv, t["keys"]))
        if t["d"] == 1 and iv != t["ray"]:
            out.append(core.violation("not_unique_ray", "returned %s, the unique minimal solution is %s" % (iv, t["ray"]), sig))
        hard = bool(rec["faults"]) and all(f["kind"] in HARD_FAILURES for f in rec["faults"])
        told = bool(rec["faults"]) and all(f["kind"] == "sol_set" and str(f.get("text", "")).startswith("Stopped") for f in rec["faults"])
        if told:
            sig = dict(sig, solver_said_not_optimal=True)
        if t["d"] >= 2 and mode == "none" and (not faulted or hard or told) and not dup:
            bound = sum(iv)
            best, wit = NS.min_positive_sum(t["A"], len(iv), bound)
            if best is not None and best < bound:
                out.append(core.violation("not_minimal", "returned %s (sum %d) but %s has sum %d" % (iv, bound, wit, best), sig))
    else:
        # parametric answer (mode True, under-determined)
        if not t["feasible"]:
            out.append(core.violation("answered_infeasible", "parametric answer %s although no positive assignment exists (%s)" % ([_coef_repr(c) for c in coefs], t["klass"]), sig))
        elif t["d"] == 1:
            out.append(core.violation("not_unique_ray", "parametric answer for a single-ray reaction: %s" % [_coef_repr(c) for c in coefs], sig))
    return out


def _dup_feasible(case):
    """Is there a way to drop each shared species from at least one side that leaves a reaction
    with a positive solution?  (mirror of what allow_duplicates promises)"""
    from itertools import product as iprod

    reac, prod = list(case["reac"]), list(case["prod"])
    shared = [k for k in reac if k in prod]
    for choice in iprod((0, 1, 2), repeat=len(shared)):  # 0: drop both, 1: keep as reactant, 2: keep as product
        r = [k for k in reac if k not in shared or choice[shared.index(k)] == 1]
        p = [k for k in prod if k not in shared or choice[shared.index(k)] == 2]
        if not r or not p:
            continue
        if truth_for(case, r, p)["feasible"]:
            return True
    return False


def _is_number(c):
    if isinstance(c, bool):
        return False
    if isinstance(c, (int, float, Fraction)):
        return True
    try:
        import sympy

        return isinstance(c, sympy.Basic) and c.is_number
    except ImportError:
        return False


def _is_int(c):
    if isinstance(c, bool):
        return False
    if isinstance(c, int):
        return True
    try:
        import sympy

        return isinstance(c, sympy.Integer)
    except ImportError:
        return False


# ----------------------------------------------------------------------------- fault enumeration


def _ilp_order(case):
    """Order of the ILP variables as chempy builds them (sets are sorted, sequences kept)."""
    if case["container"] == "set":
        return sorted(case["reac"]) + sorted(case["prod"])
    return list(case["reac"]) + list(case["prod"])


def sol_set_plans(case, call):
    """Vectors a solver may hand back that satisfy every equality of the balancing program but not its bounds
    or its optimality (from the exact null space): the way an infeasible or prematurely stopped integer program ends."""
    if call.get("dup") or set(case["reac"]) & set(case["prod"]):
        return []
    t = truth_for(case, case["reac"], case["prod"])
    if t["d"] == 0:
        vecs = [([0] * len(t["keys"]), "Infeasible - objective value 0.00000000")]
    else:
        prim = [NS.primitive(b) for b in t["basis"]]
        vecs = []
        for v in prim[:3]:
            head = "Optimal - objective value 0.00000000" if all(x > 0 for x in v) else "Infeasible - objective value 0.00000000"
            vecs.append((v, head))
            vecs.append(([-x for x in v], "Infeasible - objective value 0.00000000"))
            if all(x > 0 for x in v):
                vecs.append(([2 * x for x in v], "Optimal - objective value 0.00000000"))
        if len(prim) >= 2:
            vecs.append(([a + b for a, b in zip(prim[0], prim[1])], "Infeasible - objective value 0.00000000"))
            vecs.append(([a - b for a, b in zip(prim[0], prim[1])], "Infeasible - objective value 0.00000000"))
        vecs.append(([0] * len(t["keys"]), "Infeasible - objective value 0.00000000"))
        if t["feasible"] and t["d"] >= 2:
            best, wit = NS.min_positive_sum(t["A"], len(t["keys"]), 40)
            pos = [v for v in prim if all(x > 0 for x in v)]
            if wit is not None:
                cand = [a + b for a, b in zip(wit, pos[0])] if pos else None
                if cand is None:
                    # wit plus a null vector that keeps it positive
                    for b in prim:
                        for sgn in (1, -1):
                            c2 = [a + sgn * x for a, x in zip(wit, b)]
                            if all(x > 0 for x in c2) and c2 != wit:
                                cand = c2
                                break
                        if cand:
                            break
                if cand and reduce(gcd, cand) == 1 and sum(cand) > best:
                    # an incumbent the solver explicitly labels as not proven optimal
                    vecs.append((cand, "Stopped on time - objective value %d.00000000" % sum(cand)))
                    vecs.append((cand, "Stopped on nodes - objective value %d.00000000" % sum(cand)))
    order = _ilp_order(case)
    pos = {k: i for i, k in enumerate(t["keys"])}
    out = []
    for v, head in vecs:
        if max(abs(x) for x in v) > 10 ** 6:
            continue
        out.append([{"inv": 0, "kind": "sol_set", "values": [v[pos[k]] for k in order], "text": head}])
    return out


def enumerate_faults(base_rec, enum, tier_pairs=0):
    """All single faults for every solver invocation the fault-free call made."""
    rng = core.stream(enum.get("fseed", 0), "c02/enum", 0)
    plans = []
    for inv in base_rec["inv_log"]:
        i = inv["inv"]
        size = inv.get("sol_size") or 0
        nv = inv.get("nvars", 1)
        single = ["exe_missing", "exit_before", "killed_before", "exit_after", "killed_after", "sol_missing", "sol_empty",
                  "sol_stale", "relax_lp", "stop_nodes0", "mps_eio", "tmpdir_gone"]
        if enum.get("minimal"):
            single = ["killed_after", "sol_stale"]
        for k in single:
            plans.append([{"inv": i, "kind": k}])
        if enum.get("minimal"):
            v = rng.randrange(nv)
            plans.append([{"inv": i, "kind": "sol_perturb", "var": v, "d": 1}])
            plans.append([{"inv": i, "kind": "sol_drop_row", "var": (v + 1) % nv}])
            continue
        if size:
            if enum.get("torn") == "all":
                offs = list(range(1, size))
            else:
                nt = int(enum.get("torn", 24))
                offs = sorted(set(rng.sample(range(1, size), min(nt, size - 1))) | {size - 1, size - 2, min(size - 1, 38), min(size - 1, 39)})
            for at in offs:
                plans.append([{"inv": i, "kind": "sol_torn", "at": at}])
        for v in range(nv):
            for dlt in (1, -1):
                plans.append([{"inv": i, "kind": "sol_perturb", "var": v, "d": dlt}])
            plans.append([{"inv": i, "kind": "sol_drop_row", "var": v}])
        for sgn in (1, -1):
            plans.append([{"inv": i, "kind": "sol_noise", "sign": sgn}])
        for m in (2, 3):
            plans.append([{"inv": i, "kind": "sol_scale", "m": m}])
        for text in ("Infeasible - objective value 0.00000000", "Stopped on time - objective value 0.00000000", "Unbounded - objective value 0.00000000"):
            plans.append([{"inv": i, "kind": "sol_header", "text": text}])
        for at in (0, 120):
            plans.append([{"inv": i, "kind": "mps_enospc", "at": at}])
        for line in sorted(set(rng.sample(range(3, 12 + 6 * nv), min(4, 9 + 6 * nv)))):
            plans.append([{"inv": i, "kind": "mps_torn", "line": line}])
    if len(base_rec["inv_log"]) > 1:
        first = [p for p in plans if p[0]["inv"] == 0]
        later = [p for p in plans if p[0]["inv"] != 0]
        per = int(enum.get("later", 14))
        keep = []
        for i in sorted({p[0]["inv"] for p in later}):
            mine = [p for p in later if p[0]["inv"] == i]
            keep += rng.sample(mine, min(per, len(mine)))
        plans = first + keep
    singles = [p[0] for p in plans]
    for _ in range(tier_pairs):
        if len(base_rec["inv_log"]) >= 1 and len(singles) >= 2:
            a, b = rng.sample(singles, 2)
            if a["inv"] != b["inv"]:
                plans.append([dict(a), dict(b)])
            else:
                b2 = dict(b)
                b2["inv"] = a["inv"] + 1
                plans.append([dict(a), b2])
    return plans


# ----------------------------------------------------------------------------- execute


def _hist_rec(rec):
    h = {k: rec[k] for k in ("mode", "dup", "faults", "outcome", "n_inv", "fired")}
    if rec.get("psym"):
        h["psym"] = rec["psym"]
    if "_res" in rec:
        rr, pp = rec["_res"] if isinstance(rec["_res"], tuple) and len(rec["_res"]) == 2 else ({}, {})
        try:
            h["result"] = [sorted((k, _coef_repr(v)) for k, v in rr.items()), sorted((k, _coef_repr(v)) for k, v in pp.items())]
        except Exception:
            h["result"] = "unprintable"
    return h


_STALE_PRIMER = ("Optimal - objective value 8.00000000\n" + "".join(
    "%7d X%07d %15s %23s\n" % (i, i, "1", "1") for i in range(8))).encode()


def execute(case):
    hist, viols, stats, states, outcome = [], [], {}, set(), []
    volatile = [False]
    shared = {}
    # the only state the seam keeps between invocations; reset so that a case is a pure function of itself.
    # primed with a well-formed solution file "left over from another problem" (all variables 1)
    cbc.WORLD.prev_sols = [_STALE_PRIMER]

    def bump(k, n=1):
        stats[k] = stats.get(k, 0) + n

    def one(call, faults):
        rec = do_call(case, call, faults, shared if case.get("share_mapping") else None)
        if rec.get("caller_mapping_changed"):
            explicit = {k: case[k] for k in ("property", "variant", "species", "reac", "prod", "container", "subs", "witness", "cold_decoy", "share_mapping", "subst_style") if k in case}
            explicit["calls"] = [dict(call, faults=[dict(f) for f in faults])]
            explicit["enumerate"] = None
            v = core.violation("caller_mapping_mutated", "the substances mapping handed to balance_stoichiometry was changed by the call: %s" % rec.get("caller_mapping_detail"),
                               {"mode": call["mode"], "dup": bool(call.get("dup"))})
            v["case"] = explicit
            viols.append(v)
        hung = any(x.get("solver_hung_killed") for x in rec["inv_log"])
        if hung:
            bump("probe:solver_hung_and_was_killed")
        faulted = bool(faults) or hung  # a solver the simulator had to kill is a fault, whoever caused it
        vs = judge(case, call, rec, faulted)
        for v in vs:
            explicit = {k: case[k] for k in ("property", "variant", "species", "reac", "prod", "container", "subs", "witness", "cold_decoy", "share_mapping", "subst_style") if k in case}
            explicit["calls"] = [dict(call, faults=[dict(f) for f in faults])]
            if not faults and call.get("cold"):
                explicit["calls"][0]["cold"] = [dict(f) for f in call["cold"]]
            explicit["enumerate"] = None
            v["case"] = explicit
            viols.append(v)
        hist.append(_hist_rec(rec))
        bump("calls")
        bump("external_invocations", rec["n_inv"])
        if rec["leaked"]:
            bump("probe:tmp_files_leaked", rec["leaked"])
        if rec.get("probe"):
            bump("probe:" + rec["probe"])
        for f in faults:
            bump("fault_cfg:" + f["kind"])
        for k in rec["fired"]:
            bump("fault_fired:" + k)
        cls = rec["outcome"]
        kinds = tuple(sorted(f["kind"] for f in faults)) or ("none",)
        fired = tuple(sorted(set(rec["fired"])))
        pos = tuple(sorted({min(f["inv"], 3) for f in faults}))
        states.add((call["mode"], bool(call.get("dup")), case["variant"], kinds, fired, pos, cls, min(rec["n_inv"], 5)))
        if faulted and rec["fired"] and cls == "ok":
            bump("probe:returned_despite_fired_fault")
        if faulted and call.get("dup") and rec["fired"] and cls == "ok":
            bump("probe:dup_search_swallowed_fault_and_answered")
        for f in faults:
            if f["kind"] == "sol_torn" and rec["fired"]:
                bump("probe:torn_solution_file")
        return rec

    def decoy(call):
        """Same keys, compositions rotated among the species (explicit substances mapping)."""
        sp = case["species"]
        if len(sp) < 2:
            return
        rot = [dict(s, comp=sp[(i + 1) % len(sp)]["comp"]) for i, s in enumerate(sp)]
        dcase = dict(case, species=rot, subs="factory" if case["subs"] == "factory" else "explicit")
        rec = do_call(dcase, dict(call, faults=[]), [])
        hist.append(dict(_hist_rec(rec), decoy=True))
        bump("decoy_calls")
        bump("decoy:" + rec["outcome"].split(":")[0])

    if case.get("cold_decoy") and case["calls"]:
        # the very first thing this process sees under these keys are OTHER compositions
        decoy(case["calls"][0])
    for call in case["calls"]:
        faults0 = call.get("faults") or []
        for cold in call.get("cold", []) if not faults0 else []:
            # the solver misbehaves on the very first time this problem is solved in the process ...
            one(dict(call, cold=None), [dict(cold)])
        # ... and the next, healthy call is judged as strictly as any fault-free call
        rec = one(call, faults0)
        if not faults0:
            r = _hist_rec(rec)
            t = None
            if rec["outcome"] == "ok" and not call.get("dup"):
                t = truth_for(case, case["reac"], case["prod"])
            # outcome that must not depend on the hash seed: the vector for unique answers, else only its sum
            if t is not None and t["d"] >= 2 and call["mode"] in ("none", "one") and "result" in r:
                tot = 0
                for side in r["result"]:
                    for _k, v in side:
                        tot += int(v)
                outcome.append([call["mode"], "ok-sum", tot])
            elif call.get("dup"):
                outcome.append([call["mode"], "dup", r["outcome"]])
            else:
                outcome.append([call["mode"], r["outcome"], r.get("result")])
        enum = case.get("enumerate")
        if enum and not faults0 and any(x.get("elapsed", 0) > SLOW_SOLVER_S or x.get("solver_hung_killed") for x in rec["inv_log"]):
            # the real solver needs many seconds for this integer program: enumerating ~100 faults on it would take longer
            # than the run's wall cap.  Which instances are slow depends on the machine, so the run is marked volatile
            # (excluded from the digest cross-checks); skipping faults can only lose coverage, never raise an alarm.
            bump("probe:slow_solver_instance_fault_enumeration_skipped")
            volatile[0] = True
            continue
        if enum and not faults0 and rec["n_inv"] > 0:
            extra = sol_set_plans(case, call)
            for plan in enumerate_faults(rec, enum, enum.get("pairs", 0)) + (extra[:2] if enum.get("minimal") else extra):
                one(call, plan)
        if (enum and not faults0 and not enum.get("minimal")) or call.get("after"):
            # history independence: a decoy call with the same keys but other compositions (usually refused), then the
            # same call again - the answer must not depend on what this process balanced or failed to balance before
            first = _hist_rec(rec)
            if call.get("after") != "none":
                decoy(call)
            again = one(dict(call, after=None), [])
            second = _hist_rec(again)
            same = first["outcome"] == second["outcome"]
            if same and "result" in first:
                t = truth_for(case, case["reac"], case["prod"]) if not call.get("dup") and not (set(case["reac"]) & set(case["prod"])) else None
                if t is not None and t["d"] == 1:
                    same = first["result"] == second.get("result")
            if not same:
                explicit = {k: case[k] for k in ("property", "variant", "species", "reac", "prod", "container", "subs", "witness", "cold_decoy", "share_mapping", "subst_style") if k in case}
                explicit["calls"] = [dict(call, faults=[], after="decoy")]
                explicit["enumerate"] = None
                v = core.violation("history_dependence", "the same call gave %s first and %s after a decoy call / injected faults" % (
                    first["outcome"], second["outcome"]), {"mode": call["mode"], "dup": bool(call.get("dup"))})
                v["case"] = explicit
                viols.append(v)
    return {"history": hist, "outcome": outcome, "violations": _dedup(viols), "stats": stats, "states": sorted(states, key=repr),
            "volatile": volatile[0]}


def _dedup(viols):
    seen, out = set(), []
    for v in viols:
        k = (v["class"], core.canon(v["sig"]))
        if k not in seen:
            seen.add(k)
            out.append(v)
    return out


# ----------------------------------------------------------------------------- shrinking


def shrink(case, still_fails):
    cur = copy.deepcopy(case)
    cur["enumerate"] = None
    if not still_fails(cur):
        return case
    # fewer calls
    if len(cur["calls"]) > 1:
        for c in list(cur["calls"]):
            t = dict(cur, calls=[c])
            if still_fails(t):
                cur = t
                break
    # fewer / simpler faults
    for ci, call in enumerate(cur["calls"]):
        faults = call.get("faults") or []
        if len(faults) > 1:
            def test(fs, ci=ci):
                t = copy.deepcopy(cur)
                t["calls"][ci]["faults"] = fs
                return still_fails(t)

            fs = core.ddmin_list(faults, test, budget=[20])
            t = copy.deepcopy(cur)
            t["calls"][ci]["faults"] = fs
            if still_fails(t):
                cur = t
    # simpler container / substances argument
    for fld, val in (("container", "list"), ("subs", "explicit")):
        if cur.get(fld) != val:
            t = dict(cur)
            t[fld] = val
            if still_fails(t):
                cur = t
    # smaller compositions
    for si in range(len(cur["species"])):
        for z in list(cur["species"][si]["comp"]):
            v = cur["species"][si]["comp"][z]
            if isinstance(v, int) and abs(v) > 1:
                t = copy.deepcopy(cur)
                t["species"][si]["comp"][z] = 1 if v > 0 else -1
                if t["subs"] != "explicit":
                    continue
                if still_fails(t):
                    cur = t
    return cur


# ----------------------------------------------------------------------------- reporting


def is_trivial_state(s):
    mode, dup, variant, kinds, fired, pos, cls, ninv = s
    if kinds != ("none",) and not fired:
        return True  # configured fault never altered what chempy saw
    return False


def describe():
    return {
        "rule": ("cases generated from their answer (positive coprime vector -> compositions with A x = 0; variants: single ray, "
                 "2-4 dimensional cone, wrong-side species, component on one side only, superfluous species, full rank, duplicate "
                 "species, fractional counts, electron); each is balanced fault-free in all modes and then, for every solver "
                 "invocation of the smallest-integers / duplicate-search calls, once per fault of the SimCBC fault list (torn "
                 "solution file at sampled or all byte offsets, every variable perturbed/dropped, ...). evaluations = "
                 "balance_stoichiometry calls. A state is (mode, duplicates, variant, configured fault kinds, fault kinds that "
                 "actually fired, invocation index, outcome class, number of solver invocations); trivial = a configured fault "
                 "that never altered what chempy saw"),
        "real_components": ["chempy.balance_stoichiometry and everything below it (Substance.from_formula, formula parser, sympy linsolve, "
                            "post-checks, duplicate search)", "PuLP 3.3.2 (MPS writer, solution reader)", "the bundled cbc binary (real process per invocation)"],
        "stubbed_components": ["pulp.PULP_CBC_CMD is bound to SimCBC (subclass): subprocess.Popen as seen by pulp.apis.coin_api, "
                               "LpProblem.writeMPS, the executable check and the temp directory are wrapped to inject faults; with an "
                               "empty plan they pass through unchanged"],
        "assumptions": ["a solver that never terminates is not injected (chempy passes no time limit; the property promises nothing about termination)",
                        "under injected faults only safety is required: any exception is an acceptable refusal, minimality is not demanded for multi-dimensional cones",
                        "tie-breaking among equally minimal ILP optima is not asserted",
                        "ground truth: exact Fraction null space, Fourier-Motzkin cone feasibility and bounded enumeration in sim/models/nullspace.py"],
        "extra": {"fault_kinds": cbc.FAULT_KINDS},
    }
